#!/bin/bash
# run_seed_iso.sh <patch> <check ids...>
# Like run_seed.sh but never touches /repo: a scratch worktree of /repo's HEAD
# gets the patch, a scratch copy of /verif has its harness pointed at it.  Used
# while a background run is reading /repo.  Everything is removed afterwards.
PATCH=$(readlink -f "$1"); shift
S=/tmp/sv.$$
mkdir -p $S
git -C /repo worktree add --detach $S/repo HEAD >/dev/null 2>&1 || exit 2
( cd $S/repo && git apply "$PATCH" ) || { git -C /repo worktree remove --force $S/repo; rm -rf $S; exit 2; }
cp -n /repo/packages/rooc/Cargo.lock $S/repo/packages/rooc/Cargo.lock
rsync -a --exclude runs --exclude .git --exclude evidence ${VERIF_SRC:-/verif}/ $S/verif/
mkdir -p $S/verif/evidence
sed -i "s#/repo/packages/rooc#$S/repo/packages/rooc#" $S/verif/harness/Cargo.toml $S/verif/vlib/core.py
rm -f $S/verif/harness/Cargo.lock
# reuse generated case files (they do not depend on the repository)
mkdir -p $S/verif/runs && [ -d /verif/runs/gen ] && cp -r /verif/runs/gen $S/verif/runs/gen
for c in "$@"; do
  ( cd $S/verif && ./check $c > $S/$c.log 2>&1 ); rc=$?
  echo "$c rc=$rc $(grep -c '^VIOLATION' $S/$c.log) violations; $(tail -1 $S/$c.log | cut -c1-150)"
  grep '^VIOLATION' $S/$c.log | head -3 | cut -c1-300
  [ $rc = 2 ] && tail -5 $S/$c.log
done
[ -n "$KEEP" ] && { echo "kept $S"; exit 0; }
git -C /repo worktree remove --force $S/repo
rm -rf $S
git -C /repo worktree prune
