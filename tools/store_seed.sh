#!/bin/bash
# store.sh <seeddir-name> <Sxx_name> <prop> <needs> <detected-json> <ran>
d=/verif/seeded/$2; mkdir -p $d; cp /tmp/seed/$1/{patch.diff,demo.rs,notes.md} $d/
python3 - "$d" "$3" "$4" "$5" "$6" "$7" <<'E'
import json,sys
d,prop,needs,det,ran,origin=sys.argv[1:7]
json.dump({"breaks_property":prop,"needs_to_manifest":needs,"detected_by":json.loads(det),"what_was_run":["tools/confirm_seed.sh",ran],"origin":origin},open(d+"/meta.json","w"),indent=1)
E
