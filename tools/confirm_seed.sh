#!/bin/bash
# confirm_seed.sh <seed dir> <worktree>: confirms a seeded change in a scratch worktree:
#   with the change: whole suite passes, demo fails; without: demo passes.
set -u
SEED=$1; WT=$2
cd $WT && git checkout -q -- . && git clean -fdq packages/rooc/tests
cp $SEED/demo.rs packages/rooc/tests/seed_demo.rs
( cd packages/rooc && cargo test --offline --test seed_demo 2>&1 | grep -E "^test result|FAILED|panicked" | head -3 ) > $SEED/confirm_without.txt
echo "WITHOUT: $(grep -c 'test result: ok' $SEED/confirm_without.txt) ok-lines"
git apply $SEED/patch.diff || { echo "patch does not apply"; exit 1; }
( cd packages/rooc && cargo test --offline --test seed_demo 2>&1 | grep -E "^test result|FAILED|panicked" | head -3 ) > $SEED/confirm_with_demo.txt
echo "WITH (demo): $(grep -c 'FAILED' $SEED/confirm_with_demo.txt) FAILED-lines"
rm packages/rooc/tests/seed_demo.rs
( cd packages/rooc && cargo test --offline 2>&1 | grep -E "^test result" | awk '{p+=$4; f+=$6} END {print "suite passed", p, "failed", f}' ) | tee $SEED/confirm_with_suite.txt
git checkout -q -- . && git clean -fdq packages/rooc/tests
