#!/bin/bash
# run_seed.sh <patch> <check ids...>: apply a seeded change to /repo, run checks, undo.
PATCH=$1; shift
cd /repo && git status --short | grep -q . && { echo "/repo not clean"; exit 2; }
git apply $PATCH || exit 2
for c in "$@"; do
  cd /verif && ./check $c > /tmp/seedrun_$c.log 2>&1; rc=$?
  echo "$c rc=$rc $(grep -c '^VIOLATION' /tmp/seedrun_$c.log) violations; $(tail -1 /tmp/seedrun_$c.log)"
done
cd /repo && git checkout -- . && git status --short
