#!/bin/bash
# replay_seeds.sh [pattern]: every stored seed against the check(s) of the property it breaks, on a scratch
# copy (tools/run_seed_iso.sh).  One line per seed: detected / MISSED / patch does not apply (the code moved on).
cd "$(dirname "$0")/.."
for d in seeded/${1:-S}*; do
  props=$(python3 -c "import json,re;print(' '.join(re.findall(r'C\d\d', json.load(open('$d/meta.json'))['breaks_property'])))")
  if ! git -C /repo apply --check "$PWD/$d/patch.diff" 2>/dev/null; then echo "$(basename $d) [$props] patch does not apply to the current tree"; continue; fi
  out=$(nice -n 10 tools/run_seed_iso.sh "$d/patch.diff" $props 2>&1 | grep " rc=")
  if echo "$out" | grep -q "rc=1"; then echo "$(basename $d) [$props] detected: $(echo "$out" | grep 'rc=1' | awk '{print $1}' | tr '\n' ' ')"; else echo "$(basename $d) [$props] MISSED: $(echo $out | cut -c1-200)"; fi
done
