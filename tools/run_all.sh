#!/bin/bash
# run_all.sh <tier>: every check of the manifest once, with return code and wall time
tier=${1:-quick}
cd "$(dirname "$0")/.."
for id in C01 C02 C03 C04 C05 C06 C07 C08 C09 C10 C11 C12 C13 C14 C15 C16 C17 C18 C19 C20; do
  s=$(date +%s)
  ./check $id --tier $tier > /tmp/runall_$id.log 2>&1; rc=$?
  e=$(date +%s)
  echo "$id tier=$tier rc=$rc wall=$((e-s))s $(grep -c '^VIOLATION' /tmp/runall_$id.log) violations $(grep -c '^KNOWN-FINDING' /tmp/runall_$id.log) known | $(tail -1 /tmp/runall_$id.log | cut -c1-100)"
done
