#!/usr/bin/env python3
"""Binding self-test: the trace specifications must reject recorded events in which ONE observed
field has been corrupted.  Takes the events of the last quick run of each check (runs/<Cxx>/chunk*.ndjson),
corrupts one field per event, validates them with the same trace specification and reports how many
corrupted events were rejected.  A specification that accepts most corrupted events binds nothing.
usage: tools/binding_selftest.py            (after ./check has run for C01 C04 C09 C10 C12 C13 C16 C17 C20)"""
import copy
import glob
import json
import os
import sys

sys.path.insert(0, os.path.dirname(os.path.dirname(os.path.abspath(__file__))))
from vlib import core  # noqa: E402


def events_of(tag, want, limit=150):
    out = []
    for f in sorted(glob.glob(os.path.join(core.RUNS, tag, "chunk*.ndjson"))):
        for ln in open(f):
            e = json.loads(ln)
            if want(e):
                out.append(e)
                if len(out) >= limit:
                    return out
    return out


def c_lin(e):          # C01: the first compiled row with its relation reversed (an equation: its right-hand side moved)
    r = e["lm"]["rows"][0]
    if r["cmp"] == "eq":
        r["b"] += 7 * r["scale"]
    else:
        r["cmp"] = {"le": "ge", "ge": "le", "lt": "gt", "gt": "lt"}[r["cmp"]]
    return e


def c_solve(e):        # C04: first returned value moved by 3
    v = e["sol"]["point"][0]["v"]
    v["n"] += 3 * v["d"]
    v["c"] += 30000
    return e


def c_parse(e):        # C09: the observed tree with its top operator changed
    t = e["tree"]
    swap = {"add": "sub", "sub": "add", "mul": "add", "div": "mul", "b_and": "b_or", "b_or": "b_and", "b_implies": "b_iff", "b_iff": "b_xor", "b_xor": "b_iff",
            "neg": "abs", "u_not": "neg", "and": "or", "or": "and", "implies": "iff", "iff": "xor", "xor": "iff", "not": "neg"}
    if t.get("op") in swap:
        t["op"] = swap[t["op"]]
    return e


def c_lp(e):           # C17: the model says the first right-hand side has the other sign than the LP text
    b = e["rows"][0]["b"]
    b["s"] = -b["s"] if b["s"] else 1
    if b["m"] == [0, 0, 0]:
        b["m"] = [261888, 0, 0]
    return e


def c_std(e):          # C13: first standard-form row: its first non-zero coefficient negated
    r = e["std"]["rows"][0]
    for k, a in enumerate(r["a"]):
        if a:
            r["a"][k] = -a
            break
    else:
        r["b"] += 5 * r["scale"]
    return e


def c_std_between(e):  # C13: the LAST standard-form row (a bound row where there is one) relaxed by a quarter of a unit:
    r = e["std"]["rows"][-1]          # no point of the grid {0, 1/2, 1, 2, 3} tells the difference, the exact comparison does
    r["a"] = [4 * a for a in r["a"]]
    r["b"] = 4 * r["b"] + 1
    return e


def c_render(e):       # C12: the recompiled linear model has another first right-hand side
    b = e["from_lm"]["lm"]["rows"][0]["b"]
    b["s"] = -b["s"] if b["s"] else 1
    if b["m"] == [0, 0, 0]:
        b["m"] = [261888, 0, 0]
    return e


def c_dual(e):         # C20: the first reported shadow price moved by one
    v = e["sol"]["duals"][0]["v"]
    v["n"] += v["d"]
    v["c"] += 10000
    return e


def c_doors(e):        # C16: the value the text door reported, moved by one
    v = e["T"]["value"]
    v["n"] += v["d"]
    v["c"] += 10000
    return e


def c_rewrite(e):      # C10: the simplified tree with its top operator changed / a constant moved
    t = e["s"]
    swap = {"add": "sub", "sub": "add", "mul": "add", "div": "mul", "and": "or", "or": "and", "neg": "abs", "abs": "neg", "min": "max", "max": "min",
            "not": "neg", "xor": "iff", "iff": "xor", "implies": "iff"}
    if t.get("op") in swap:
        t["op"] = swap[t["op"]]
    elif t.get("op") == "num":
        t["n"] += 3 * (t["d"] or 1)
    elif t.get("op") == "var":
        e["s"] = {"op": "neg", "a": t}
    return e


PLANS = [
    ("C01", "C01", os.path.join(core.SPEC, "lin"), "LinTrace.tla", "LinTrace.cfg", "C01,C02",
     lambda e: e.get("out") == "ok" and e.get("exact") and e.get("lm", {}).get("rows") and "g" in e, c_lin),
    ("C04", "C04", os.path.join(core.SPEC, "solve"), "SolveTrace.tla", "SolveTrace.cfg", "C04",
     lambda e: e.get("out") == "solution" and e["sol"]["point"] and e["sol"]["point"][0]["v"].get("snap"), c_solve),
    ("C09", "C09", os.path.join(core.SPEC, "parse"), "ParseTrace.tla", "ParseTrace.cfg", "C09",
     lambda e: e.get("out") == "ok" and len(e.get("tokens", [])) >= 3 and e["tree"].get("op") not in ("var", "num"), c_parse),
    ("C17", "C17", os.path.join(core.SPEC, "lpfmt"), "LpReader.tla", "LpReader.cfg", "C17",
     lambda e: e.get("out") == "ok" and e.get("rows"), c_lp),
    ("C13", "C13", os.path.join(core.SPEC, "std"), "StdFormTrace.tla", "StdFormTrace.cfg", "C13",
     lambda e: e.get("out") == "ok" and e.get("std", {}).get("rows"), c_std),
    ("C13-between-grid", "C13", os.path.join(core.SPEC, "std"), "StdFormTrace.tla", "StdFormTrace.cfg", "C13",
     lambda e: e.get("out") == "ok" and e.get("std", {}).get("rows") and any(v["hi"]["inf"] == 0 for v in e["vars"]), c_std_between),
    ("C12", "C12", os.path.join(core.SPEC, "render"), "RenderTrace.tla", "RenderTrace.cfg", "C12",
     lambda e: e.get("out") == "ok" and e.get("from_lm", {}).get("out") == "ok" and e["from_lm"]["lm"]["rows"], c_render),
    ("C20", "C20", os.path.join(core.SPEC, "solve"), "SolveTrace.tla", "SolveTrace.cfg", "C20",
     lambda e: e.get("entry") == "clarabel" and e.get("out") == "solution" and e["sol"]["duals"] and e["sol"]["duals"][0]["v"].get("snap"), c_dual),
    ("C16", "C16", os.path.join(core.SPEC, "doors"), "DoorsTrace.tla", "DoorsTrace.cfg", "C16",
     lambda e: "T" in e and e["T"].get("out") == "solution" and e.get("sense") != "sat" and not e.get("illtyped"), c_doors),
    ("C10", "C10-t", os.path.join(core.SPEC, "rewrite"), "RewriteTrace.tla", "RewriteTrace.cfg", "C10",
     lambda e: "s" in e and e["s"].get("op") not in ("panic", "unverifiable"), c_rewrite),
]


def main():
    report = {}
    bad = False
    for name, tag, spec_dir, module, cfg, props, want, corrupt in PLANS:
        evs = events_of(tag, want)
        if not evs:
            report[name] = "no events recorded (run ./check %s first)" % name
            continue
        clean = core.validate(spec_dir, module, cfg, copy.deepcopy(evs), props, "selftest-" + name, chunks=4)
        cor = [corrupt(copy.deepcopy(e)) for e in evs]
        v = core.validate(spec_dir, module, cfg, cor, props, "selftest-" + name, chunks=4)
        rej = len({r[2] for r in v.rejects})
        rej_clean = len({r[2] for r in clean.rejects if not str(r[3]).startswith("KNOWN-")})
        report[name] = {"events": len(evs), "rejected_when_clean": rej_clean, "rejected_when_one_field_corrupted": rej}
        # (relaxing the last row by a quarter is neutral when the row is redundant or the model infeasible anyway)
        if rej < (0.25 if "between" in name else 0.5) * len(evs):   # (semantically neutral corruptions - a relaxed row of an infeasible model - are rightly accepted)
            bad = True
    print(json.dumps(report, indent=1))
    json.dump(report, open(os.path.join(core.RUNS, "binding_selftest.json"), "w"), indent=1)
    return 1 if bad else 0


if __name__ == "__main__":
    sys.exit(main())
