"""C10: algebraic rewrites and constant spelling preserve meaning.
Part 1 (RewriteTrace): Exp::simplify / flatten on TLC-enumerated trees.
Part 2 (LinTrace, twin events): two spellings of one model through the text
front end must both compile (or both be rejected) to linear models with the
meaning of the first spelling's source model."""
import copy
import json
import os

from . import core, lin, render

SPEC_DIR = os.path.join(core.SPEC, "rewrite")


# ---- respellings -----------------------------------------------------------
def plain(n, d):
    v = n / d
    s = str(int(v)) if v == int(v) else repr(abs(v)) if v < 0 else repr(v)
    if v < 0:
        return f"(-{str(int(-v)) if v == int(v) else repr(-v)})"
    return s


def arith(n, d):
    """constants as constant sub-expressions: 2 -> (1 + 1), -2 -> (0 - 2), 0.5 -> (1 / 2), 0 -> (1 - 1), 1 -> (3 - 2)"""
    v = n / d
    if v == int(v):
        k = int(v)
        if k < 0:
            return f"(0 - {-k})"
        if k >= 2:
            return f"({k - 1} + 1)"
        return "(1 - 1)" if k == 0 else "(3 - 2)"
    if d in (2, 4) and abs(n) < 20:
        return f"({n} / {d})" if n > 0 else f"((0 - {-n}) / {d})"
    return plain(n, d)


class Named:
    """every distinct constant becomes a named constant of the where section"""

    def __init__(self):
        self.consts = {}

    def __call__(self, n, d):
        v = n / d
        key = f"k{len(self.consts)}"
        for k, val in self.consts.items():
            if val == plain(n, d):
                return k
        self.consts[key] = plain(n, d)
        return key


def commute(t):
    """k * e  <->  e * k"""
    t = copy.deepcopy(t)
    if isinstance(t, dict):
        if t.get("op") == "mul" and (t["a"]["op"] == "num") != (t["b"]["op"] == "num"):
            t["a"], t["b"] = commute(t["b"]), commute(t["a"])
            return t
        for k in ("a", "b"):
            if k in t:
                t[k] = commute(t[k])
        if "args" in t:
            t["args"] = [commute(a) for a in t["args"]]
    return t


def negspell(t):
    """the unary-minus spellings:  a - b  ->  a + -(b);   (-k) * e  ->  -(k * e);   e * (-k)  ->  -(e * k)"""
    if not isinstance(t, dict):
        return t
    t = copy.deepcopy(t)
    for k in ("a", "b"):
        if k in t:
            t[k] = negspell(t[k])
    if "args" in t:
        t["args"] = [negspell(a) for a in t["args"]]
    if t.get("op") == "sub":
        return {"op": "add", "a": t["a"], "b": {"op": "neg", "a": t["b"]}}
    if t.get("op") == "mul":
        for x, y in (("a", "b"), ("b", "a")):
            if t[x]["op"] == "num" and t[x]["n"] * t[x]["d"] < 0:
                pos = {"op": "num", "n": -t[x]["n"], "d": t[x]["d"]}
                inner = t[y] if (pos["n"] == pos["d"]) else dict(t, **{x: pos})
                return {"op": "neg", "a": inner}
    return t


def map_case(case, f):
    c = copy.deepcopy(case)
    c["obj"] = f(c["obj"])
    for k in c["cons"]:
        k["lhs"] = f(k["lhs"])
        k["rhs"] = f(k["rhs"])
    return c


def commute_case(case):
    c = copy.deepcopy(case)
    c["obj"] = commute(c["obj"])
    for k in c["cons"]:
        k["lhs"] = commute(k["lhs"])
        k["rhs"] = commute(k["rhs"])
    return c


def twins(case, i):
    a = render.model_text(case, plain)
    style = i % 4
    if style == 3:
        b = render.model_text(map_case(case, negspell), plain)
    elif style == 0:
        b = render.model_text(case, arith)
    elif style == 1:
        nm = Named()
        body = render.model_text(case, nm)   # fills nm.consts
        b = render.model_text(case, nm, consts=nm.consts) if nm.consts else body
    else:
        b = render.model_text(commute_case(case), arith)
    return {"id": f"T{case['id']}", "a": a, "b": b, "style": ["arith", "named", "commute+arith", "unary minus"][style]}


def _b(n):
    return {"inf": 0, "n": n, "d": 1}


TREE_DOM = [{"name": "x", "kind": "real", "lo": _b(-4), "hi": _b(4)}, {"name": "y", "kind": "real", "lo": _b(-3), "hi": _b(5)},
            {"name": "p", "kind": "bool", "lo": _b(0), "hi": _b(1)}]


def _uses(t, acc):
    if t["op"] == "var":
        acc.add(t["name"])
    for k in ("a", "b"):
        if k in t:
            _uses(t[k], acc)
    for a in t.get("args", []):
        _uses(a, acc)


def tree_models(trees, seed):
    """One small model around each numeric ExprGen tree (as a row or as the objective): the shapes
    corpus K lacks, e.g. a unary minus over a sum with a constant, a constant on the left of a division."""
    num = lambda n: {"op": "num", "n": n, "d": 1}
    out = []
    for i, c in enumerate(trees):
        t = c["tree"]
        used = set()
        _uses(t, used)
        if not used or "q" in used:
            continue
        mode = (i + seed) % 4
        xy = {"lhs": {"op": "add", "a": {"op": "var", "name": "x"}, "b": {"op": "var", "name": "y"}}, "cmp": "le", "rhs": num(3), "assert": False, "name": ""}
        if mode == 0:
            m = {"sense": "sat", "obj": num(0), "cons": [{"lhs": t, "cmp": "le", "rhs": num(1), "assert": False, "name": ""}]}
        elif mode == 1:
            m = {"sense": "sat", "obj": num(0), "cons": [{"lhs": num(-1), "cmp": "le", "rhs": t, "assert": False, "name": ""}]}
        elif mode == 2:
            m = {"sense": "min", "obj": t, "cons": [xy]}
        else:
            m = {"sense": "max", "obj": {"op": "var", "name": "x"}, "cons": [{"lhs": t, "cmp": "ge", "rhs": num(2), "assert": False, "name": ""}, xy]}
        names = set(used)
        for k in m["cons"]:
            _uses(k["lhs"], names)
            _uses(k["rhs"], names)
        _uses(m["obj"], names)
        m["dom"] = [copy.deepcopy(d) for d in TREE_DOM if d["name"] in names]
        m["id"] = f"X{c['id']}"
        out.append(m)
    return out


# ---- check -------------------------------------------------------------------
def check(tier, seed, replay=None):
    prop = "C10"
    o = core.Outcome(prop, tier, seed)
    core.build_harness()
    meta = {}
    tcases, pairs, dcases = [], [], []
    if replay:
        c = json.load(open(replay))
        if "dmodel" in c:
            dcases = [c["dmodel"]]
        elif "tree" in c:
            tcases = [{"id": c["id"], "tree": c["tree"]}]
        else:
            pairs = [{"id": c["id"].split("/")[0], "a": c["texta"], "b": c["textb"]}]
    else:
        for fam, nquick in (("d1", 1200), ("d2num", 1800), ("d2log", 2400), ("zero", 2500), ("negsum", 700), ("assoc", 800), ("idlog", 2200)):
            cs, g, d = core.gen_cases(SPEC_DIR, "ExprGen.tla", f"Gen_{fam}.cfg", "ex" + fam, workers=8)
            for i, c in enumerate(cs):
                c["id"] = f"{fam}_{i}"
            meta[fam] = {"cases": len(cs), "gen_states": d, "gen_transitions": g}
            if tier == "quick":
                k = max(1, len(cs) // nquick)
                cs = cs[seed % k::k]
            tcases += cs
        # twins from the corpus-K families (models with scales, divisions, abs/min/max, row-derived bounds)
        kcases, kmeta = lin.gen_all("quick", seed, per_family_quick=(120 if tier == "quick" else 1500))
        for f, m in kmeta.items():
            meta["twins:" + f] = m
        kcases = [c for c in kcases if c.get("fam") != "E"]
        nt = 400 if tier == "quick" else 12000
        numeric = [c for c in tcases if c["id"].startswith(("d1_", "d2num_"))]
        k = max(1, len(numeric) // nt)
        negs = [c for c in tcases if c["id"].startswith("negsum_")]
        kn = max(1, len(negs) // (300 if tier == "quick" else 5000))
        xcases = tree_models(numeric[(seed * 7) % k::k] + negs[seed % kn::kn], seed)
        meta["twins:trees"] = {"cases": len(xcases)}
        pairs = [twins(c, i + seed) for i, c in enumerate(kcases + xcases)]
        # part 3: models around the trees that hide a division (zero factors, deciding constants, dominated
        # min / max operands, decided logic comparisons): the compiler must refuse them
        ps, g, d = core.gen_cases(SPEC_DIR, "ExprGen.tla", "Gen_prune.cfg", "exprune", workers=8)
        for i, c in enumerate(ps):
            c["id"] = f"prune_{i}"
        meta["prune"] = {"cases": len(ps), "gen_states": d, "gen_transitions": g}
        zeros = [c for c in tcases if c["id"].startswith("zero_")]
        kz = max(1, len(zeros) // (600 if tier == "quick" else 20000))
        dcases = []
        for md in range(4 if tier == "thorough" else 2):
            dcases += [dict(m, id=f"{m['id']}m{md}") for m in tree_models(ps + zeros[(seed + md) % kz::kz], seed + md)]
    # part 1
    tevents = core.rv_parallel("rewrite", tcases, prop + "-t", procs=8) if tcases else []
    vt = core.validate(SPEC_DIR, "RewriteTrace.tla", "RewriteTrace.cfg", tevents, prop, prop + "-t", chunks=12)
    byid = {e["id"]: e for e in tevents}
    for r in vt.rejects:
        ev = byid.get(r[2], {})
        o.violation(f"{r[3]}:{ev.get('text')}", {"id": ev.get("id"), "tree": ev.get("tree")}, f"{r[3]}: `{r[4]}` -> `{r[5]}`")
    # part 2
    pevents = core.rv_parallel("twins", pairs, prop + "-p", procs=8) if pairs else []
    for e in pevents:
        if e.get("out") == "ok" and e.get("lm"):
            lin.annotate(e, tier)
        else:
            e.setdefault("g", 1)
    costs = [1 for _ in pevents]
    vp = core.validate(lin.SPEC_DIR, "LinTrace.tla", "LinTrace.cfg", pevents, "C01,C02,C10,STA", prop + "-p", chunks=12, cost=costs)
    pby = {e["id"]: e for e in pevents}
    pairby = {p["id"]: p for p in pairs}
    for r in vp.rejects:
        ev = pby.get(r[2], {})
        pid = r[2].split("/")[0]
        pr = pairby.get(pid, {})
        rep = {"id": r[2], "texta": pr.get("a"), "textb": pr.get("b")}
        which = r[2].split("/")[-1]
        o.violation(f"twin {r[1]} {r[3]}:{pr.get('b')}", rep,
                    f"spelling {which}: {r[3]} ({r[1]})\n--- a ---\n{pr.get('a')}\n--- b ({pr.get('style')}) ---\n{pr.get('b')}\n{ev.get('whya','')} {ev.get('whyb','')}")
    # part 3
    devents = core.rv_parallel("lin", dcases, prop + "-d", procs=8) if dcases else []
    for e in devents:
        lin.annotate(e, "quick")
    vd = core.validate(lin.SPEC_DIR, "LinTrace.tla", "LinTrace.cfg", devents, "DIV", prop + "-d", chunks=12)
    dby = {c["id"]: c for c in dcases}
    for r in vd.rejects:
        ev = next((e for e in devents if e["id"] == r[2]), {})
        o.violation(f"division compiled away:{ev.get('srctext')}", {"id": r[2], "dmodel": dby.get(r[2])},
                    f"{r[3]}: denominator {r[4]}\n{ev.get('srctext')}\n--- compiled to ---\n{ev.get('text')}")
    div_refused = sum(1 for e in devents if e.get("out") == "err")
    changed = sum(1 for s in vt.stats if s[4] == 1)
    both_ok = sum(1 for e in pevents if e.get("twin") and e["outa"] == "ok" and e["outb"] == "ok")
    both_err = sum(1 for e in pevents if e.get("twin") and e["outa"] != "ok" and e["outb"] != "ok")
    samples = [{"tree_text": e["text"], "simplified": e["stext"]} for e in tevents[::max(1, len(tevents) // 3)]][:3]
    samples += [{"twin_a": p["a"], "twin_b": p["b"], "style": p["style"]} for p in pairs[:2]]
    o.level = "model_checking"
    o.coverage = {
        "states": vt.distinct + vp.distinct + sum(m.get("gen_states", 0) for m in meta.values()),
        "transitions": vt.generated + vp.generated + sum(m.get("gen_transitions", 0) for m in meta.values()),
        "traces_validated_against_impl": len(vt.stats) + len(vp.stats),
        "samples": samples or [{"note": "none"}],
        "evaluations": sum(s[2] for s in vt.stats) * 4 + sum(s[2] for s in vp.stats),
        "distinct_nontrivial": changed + both_ok,
        "rule": "part 1: trees from spec/rewrite/ExprGen.tla (all of depth <= 1; depth 2 = operator over a depth-1 tree and a leaf), rewritten by the real"
                " simplify/flatten, compared by value at all assignments ({-2,-1,0,1,2,1/2} numeric, {0,1} Boolean), idempotence, kept denominators;"
                " part 2: corpus-K models rendered in two spellings (arith constants, named constants, commuted coefficients, unary-minus spellings of subtraction and negative scales) through the text front end,"
                " both judged against the first spelling's source model (C01/C02 predicates) and for equal acceptance;"
                " part 3: models around trees that hide a zero or variable denominator (zero factor, deciding logic constant, dominated min / max operand,"
                " decided logic comparison) through Linearizer::linearize: a model with such a denominator must be refused."
                " non-trivial = tree actually changed by simplify, or twin pair where both spellings compiled",
        "exhaustive": tier == "thorough" and not replay,
        "trees": len(tevents), "trees_changed_by_simplify": changed,
        "division_models": len(devents), "division_models_refused": div_refused,
        "twin_pairs": len(pairs), "twin_pairs_both_compiled": both_ok, "twin_pairs_both_rejected": both_err,
        "families": meta,
        "unverifiable_overflow_count": len(vt.overflow_ids) + len(vp.overflow_ids),
    }
    o.assumptions = ["logic operand positions hold logic-typed trees (Boolean variables, constants, logic expressions): the language rejects other operands",
                     "twin texts are rendered by the driver with full parenthesisation"]
    return o.finish()
