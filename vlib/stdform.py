"""C13: standard-form conversion preserves the problem (StdFormTrace, hook H2)."""
import json
import os

from . import core, lpcases

SPEC_DIR = os.path.join(core.SPEC, "std")


def check(tier, seed, replay=None):
    prop = "C13"
    o = core.Outcome(prop, tier, seed)
    core.build_harness()
    d = core.rundir(prop)
    meta = {}
    if replay:
        cases = [json.load(open(replay))]
        for c in cases:
            for k in ("std", "out", "errkind"):
                c.pop(k, None)
    else:
        cases = []
        plan = [("Cont1.cfg", 800, None), ("Cont2.cfg", 700, None), ("Mixed1.cfg", 100, None), ("Offset1.cfg", 200, None), ("Offset2.cfg", 200, None),
                ("SimCont3.cfg", 60 if tier == "quick" else 3000, (3 if tier == "quick" else 30, 9))]
        for cfg, n, sim in plan:
            cs, m = lpcases.family(cfg, tier, seed, n, sim)
            meta[cfg[:-4]] = m
            cases += cs
    cpath = os.path.join(d, "cases.ndjson")
    core.write_ndjson(cpath, cases)
    events = core.rv(["std", "--cases", cpath])
    # (the grid has 5 points per IMAGE column - split halves, slacks, surpluses -: that is what a chunk costs)
    cost = [5 ** min(9, len(e["std"]["vars"])) if e.get("out") == "ok" and "std" in e else 1 for e in events]
    v = core.validate(SPEC_DIR, "StdFormTrace.tla", "StdFormTrace.cfg", events, prop, prop, chunks=12, cost=cost)
    # design level: the transcription of the algorithm (StdForm.tla) on every small model, judged by the same StdCorr operators
    design = {}
    if not replay:
        for cfg in (("MC_s.cfg",) if tier == "quick" else ("MC_q.cfg", "MC_q2.cfg")):
            rc, out = core.run_tlc(SPEC_DIR, "MCStdForm.tla", cfg, workers=8, tag="mcstd", xmx="8g")
            g, dst = core.tlc_counts(out)
            if rc != 0:
                core.log(out[-3000:])
                raise core.ToolError(f"design-level model check {cfg} failed (specification error, not an implementation verdict)")
            design[cfg] = {"states": dst, "transitions": g}
    byid = {e["id"]: e for e in events}
    for r in v.rejects:
        ev = byid.get(r[2], {})
        case = {k: ev.get(k) for k in ("id", "sense", "obj", "off", "den", "vars", "rows")}
        sig = f"{r[3]}:{json.dumps({k: case[k] for k in ('sense','obj','off','den','vars','rows')}, sort_keys=True)}"
        o.violation(sig, case, f"{r[3]} for model {json.dumps(case)[:300]} -> {ev.get('std', {}).get('text', ev.get('out'))} at {r[4] if len(r) > 4 else ''}")
    ok = [s for s in v.stats if s[2] == "ok"]
    nontrivial = sum(1 for s in ok if 0 < s[4] < s[3])
    samples = []
    for e in events:
        if e.get("out") == "ok" and len(e["rows"]) >= 1 and len(samples) < 3 and any(x["kind"] == "real" for x in e["vars"]):
            samples.append({"id": e["id"], "model": {k: e[k] for k in ("sense", "obj", "off", "vars", "rows")}, "standard_form": e["std"]["text"]})
    o.level = "model_checking"
    o.coverage = {
        "states": v.distinct + sum(m.get("gen_states", 0) for m in meta.values()) + sum(x["states"] for x in design.values()),
        "transitions": v.generated + sum(m.get("gen_transitions", 0) for m in meta.values()) + sum(x["transitions"] for x in design.values()),
        "design_model_check": design,
        "traces_validated_against_impl": len(ok),
        "samples": samples or [{"note": "none"}],
        "evaluations": sum(s[3] for s in ok),
        "distinct_nontrivial": nontrivial,
        "rule": "one event = (linear model, real standard form); each judged exactly (both inclusions of the feasible polyhedra and the objective on them, by Fourier-Motzkin) and on a grid; evaluations = grid assignments of the image columns judged"
                " in both directions; non-trivial = conversion with both feasible and infeasible grid points",
        "exhaustive": tier == "thorough" and not replay,
        "rejected_non_continuous": sum(1 for s in v.stats if s[2] == "rejected"),
        "families": meta,
        "unverifiable_overflow": v.overflow_ids[:10],
        "unverifiable_overflow_count": len(v.overflow_ids),
    }
    o.assumptions = ["the exact comparison needs the model's numbers to fit 32-bit integer arithmetic (otherwise the event is counted unverifiable); the grid {0,1/2,1,2,3} per image column is judged as well",
                     "hook H2 accessors return the fields of StandardLinearModel unchanged"]
    return o.finish()
