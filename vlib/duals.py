"""C20: shadow prices are the sensitivities of the optimum (Clarabel duals),
judged by SolveTrace!DualProblems with exact re-solving of perturbed models."""
import copy
import json
import os

from . import core, lpcases, solve

SPEC_DIR = solve.SPEC_DIR


def lp_text(c):
    """The linear model as source text (the user's model: named rows and declared domains)."""
    from . import render
    num = lambda n: {"op": "num", "n": n, "d": c["den"]}
    def lin(coefs):
        t = None
        for a, v in zip(coefs, c["vars"]):
            if a == 0:
                continue
            term = {"op": "mul", "a": num(a), "b": {"op": "var", "name": v["name"]}}
            t = term if t is None else {"op": "add", "a": t, "b": term}
        return t or num(0)
    obj = lin(c["obj"])
    if c["off"]:
        obj = {"op": "add", "a": obj, "b": num(c["off"])}
    m = {"sense": c["sense"], "obj": obj,
         "cons": [{"lhs": lin(r["a"]), "cmp": r["cmp"], "rhs": num(r["b"]), "assert": False, "name": r["name"]} for r in c["rows"]],
         "dom": [{"name": v["name"], "kind": v["kind"], "lo": v["lo"], "hi": v["hi"]} for v in c["vars"]]}
    if not m["cons"]:
        return None
    return render.model_text(m)


def check(tier, seed, replay=None):
    prop = "C20"
    o = core.Outcome(prop, tier, seed)
    core.build_harness()
    meta = {}
    if replay:
        c = json.load(open(replay))
        for k in ("entry", "out", "sol", "err"):
            c.pop(k, None)
        c["id"] = c["id"].split(":")[0]
        cases = [c]
    else:
        cases = []
        for cfg, n, sim in [("SimNamed2.cfg", 700 if tier == "quick" else 40000, (40 if tier == "quick" else 3000, 8)),
                            ("SimNamed3.cfg", 200 if tier == "quick" else 20000, (2 if tier == "quick" else 200, 9))]:
            cs, m = lpcases.family(cfg, "quick", seed, n, sim)
            meta[cfg[:-4]] = m
            cases += cs
        # one-variable named models and mixed named / unnamed rows
        cs, m = lpcases.family("Cont1.cfg", "quick", seed, 300 if tier == "quick" else 50000)
        meta["Cont1(named)"] = m
        for c in cs:
            c = copy.deepcopy(c)
            for i, r in enumerate(c["rows"]):
                r["name"] = f"r{i+1}"
            c["id"] += "_n"
            cases.append(c)
        for i, c in enumerate(cases):
            if i % 3 == seed % 3 and len(c["rows"]) >= 2:
                c["rows"][1]["name"] = ""
            elif len(c["rows"]) >= 2 and (i % 5 == (seed + 2) % 5 or
                                          (i % 2 == 0 and {c["rows"][0]["cmp"], c["rows"][1]["cmp"]} == {"le", "ge"})):
                # an unnamed row BEFORE the named ones: the k-th named row is not the k-th row (every second model whose
                # first two rows are inequalities of opposite direction, and a fifth of the rest)
                c["rows"][0]["name"] = ""
            elif i % 5 == seed % 5 and len(c["rows"]) >= 2:
                # names of the shape the compiler gives the second, third ... row of one label: they are
                # named rows like any other
                for k, r in enumerate(c["rows"]):
                    r["name"] = "cap" if k == 0 else f"cap__{k + 1}"
    if not replay:
        # hand-written: unnamed inequality rows before / between binding named rows of the opposite direction
        NNv = lambda n: {"name": n, "kind": "nnreal", "lo": solve.B(0, 0), "hi": solve.B(1, 0)}
        R_ = lambda a, cmp, b, name: {"a": a, "cmp": cmp, "b": b, "name": name}
        cases += [
            {"id": "h_unnamed_first_min", "sense": "min", "obj": [1, 2], "off": 0, "den": 1, "vars": [NNv("v0"), NNv("v1")],
             "rows": [R_([1, 0], "le", 3, ""), R_([1, 1], "ge", 5, "demand")]},
            {"id": "h_unnamed_first_max", "sense": "max", "obj": [3, 1], "off": 0, "den": 1, "vars": [NNv("v0"), NNv("v1")],
             "rows": [R_([1, 1], "ge", 1, ""), R_([1, 0], "le", 3, "cap"), R_([0, 1], "le", 2, "lim")]},
            {"id": "h_unnamed_between", "sense": "min", "obj": [2, 3], "off": 0, "den": 1, "vars": [NNv("v0"), NNv("v1")],
             "rows": [R_([1, 0], "ge", 1, "a"), R_([1, 1], "le", 9, ""), R_([0, 1], "ge", 2, "b")]},
        ]
    if not replay:
        # the same models with every cost multiplied by 128 or 300: a price is a rate of change of the OBJECTIVE, so it
        # scales with the costs (a solver front end that conditions the objective has to scale the prices back)
        scaled = []
        for i, c in enumerate(cases):
            if i % 6 == seed % 6 or c["id"].startswith("h_"):
                k = 128 if i % 2 == 0 else 300
                c2 = copy.deepcopy(c)
                c2["obj"] = [a * k for a in c2["obj"]]
                c2["off"] = c2["off"] * k
                c2["id"] += f"_x{k}"
                scaled.append(c2)
        meta["scaled_costs"] = {"cases": len(scaled)}
        cases += scaled
    for c in cases:
        t = lp_text(c)
        if t:
            c["text"] = t
    events = core.rv_parallel("solve", cases, prop, extra=["--entries", "clarabel,text_clarabel"], procs=12)
    events = [e for e in events if e["entry"] == "clarabel" or "text" in e]
    cost = [1 + 3 * len(e["rows"]) for e in events]
    v = core.validate(SPEC_DIR, "SolveTrace.tla", "SolveTrace.cfg", events, prop, prop, chunks=12, cost=cost, heads=("DUAL",))
    byid = {e["id"]: e for e in events}
    for r in v.rejects:
        if r[1] != prop:
            continue
        ev = byid.get(r[2], {})
        case = {k: ev.get(k) for k in ("id", "entry", "sense", "obj", "off", "den", "vars", "rows")}
        sig = r[3] if r[3].startswith("KNOWN-") else f"entry={ev.get('entry')} {r[3]}:{json.dumps({k: case[k] for k in ('sense','obj','off','den','vars','rows')}, sort_keys=True)}"
        case["text"] = ev.get("text")
        o.violation(sig, case,
                    f"{r[3]} model={json.dumps({k: case[k] for k in ('sense','obj','vars','rows')})[:400]} duals={json.dumps(ev.get('sol', {}).get('duals'))[:200]}")
    duals = v.other.get("DUAL", [])
    judged = sum(d[2] for d in duals)
    nonzero = sum(d[3] for d in duals)
    samples = []
    for e in events:
        if e["out"] == "solution" and e["sol"]["duals"] and len(samples) < 3 and any(d["v"]["c"] != 0 for d in e["sol"]["duals"]):
            samples.append({"id": e["id"], "model": {k: e[k] for k in ("sense", "obj", "off", "den", "vars", "rows")}, "duals": e["sol"]["duals"]})
    o.level = "model_checking"
    o.coverage = {
        "states": v.distinct + sum(m.get("gen_states", 0) for m in meta.values()),
        "transitions": v.generated + sum(m.get("gen_transitions", 0) for m in meta.values()),
        "traces_validated_against_impl": len(duals),
        "samples": samples or [{"note": "none"}],
        "evaluations": len(events),
        "distinct_nontrivial": nonzero,
        "rule": "one event = Clarabel on one named-row LpGen model, given as a LinearModel (entry clarabel) and as source text through the front end and the linearizer (entry text_clarabel); a row is judged when the exact optimum is differentiable in its right-hand side"
                " (equal secant slopes over +-1/8, three exact re-solves); non-trivial = judged row with non-zero sensitivity",
        "exhaustive": False,
        "rows_judged": judged,
        "rows_with_nonzero_sensitivity": nonzero,
        "solutions": sum(1 for e in events if e["out"] == "solution"),
        "solutions_by_entry": {en: sum(1 for e in events if e["out"] == "solution" and e["entry"] == en) for en in ("clarabel", "text_clarabel")},
        "families": meta,
        "unverifiable_overflow": v.overflow_ids[:10],
        "unverifiable_overflow_count": len(v.overflow_ids),
    }
    o.assumptions = ["duals are snapped to rationals with denominator <= 500 within 1e-6 and compared at 1e-5 relative",
                     "only rows whose sensitivity is uniquely defined (differentiable optimum) are judged, as the property states"]
    return o.finish()
