"""C06: data-driven constructs expand exactly (Expand.tla generates program + unrolled twin)."""
import json
import os

from . import core

SPEC_DIR = os.path.join(core.SPEC, "expand")


def check(tier, seed, replay=None):
    prop = "C06"
    o = core.Outcome(prop, tier, seed)
    core.build_harness()
    meta = {}
    if replay:
        c = json.load(open(replay))
        cases = [{"id": c["id"], "prog": c["prog"], "unrolled": c["unrolled"], "expect": c.get("expect", "ok")}]
    else:
        # hand-written pairs for index VALUES the generator's integer indices cannot take: an index that evaluates
        # to -0.0 names the variable of index 0 (computed from a division, from a fractional array, from enumerate)
        decl = "define\n    x_0, x_1 as Real(0, 5)"
        cases = [
            {"id": "hand_negzero_div", "expect": "ok",
             "prog": "min x_{-(k / 2)} + x_{k + 1}\ns.t.\n    x_{-(i / 2)} >= 1 for i in 0..1\n    x_1 >= 2\nwhere\n    let k = 0\n" + decl,
             "unrolled": "min x_0 + x_1\ns.t.\n    x_0 >= 1\n    x_1 >= 2\n" + decl},
            {"id": "hand_negzero_array", "expect": "ok",
             "prog": "min sum(a in A) { x_{-a} } + x_1\ns.t.\n    x_{-a} >= 1 for a in A\n    x_1 >= 2\nwhere\n    let A = [0.0]\n" + decl,
             "unrolled": "min x_0 + x_1\ns.t.\n    x_0 >= 1\n    x_1 >= 2\n" + decl},
            {"id": "hand_negzero_product", "expect": "ok",
             "prog": "min x_{k * 0} + x_1\ns.t.\n    x_{k * 0} >= 1\n    x_1 >= 2\nwhere\n    let k = 0 - 3\n" + decl,
             "unrolled": "min x_0 + x_1\ns.t.\n    x_0 >= 1\n    x_1 >= 2\n" + decl},
        ]
        for fam in ("one", "enum", "graph", "prod", "logic", "sets", "scope", "mixed", "alias", "agg", "compose"):
            cs, g, d = core.gen_cases(SPEC_DIR, "Expand.tla", f"Gen_{fam}.cfg", "exp" + fam, workers=4)
            for i, c in enumerate(cs):
                c["id"] = f"{fam}_{i}"
            meta[fam] = {"cases": len(cs), "gen_states": d, "gen_transitions": g}
            cases += cs
        nsim = 12 if tier == "quick" else 4000
        cs, g, d = core.gen_cases(SPEC_DIR, "Expand.tla", "Sim_mix.cfg", "expmix", workers=1,
                                  extra=["-simulate", f"num={nsim}", "-depth", "5", "-seed", str(seed)], cache_key=[nsim, seed])
        for i, c in enumerate(cs):
            c["id"] = f"mix{seed}_{i}"
        meta["mix"] = {"cases": len(cs), "simulated_behaviours": nsim}
        cases += cs[:1500] if tier == "quick" else cs
    events = core.rv_parallel("expand", cases, prop, procs=10)
    v = core.validate(SPEC_DIR, "ExpandTrace.tla", "ExpandTrace.cfg", events, prop, prop, chunks=12)
    byid = {e["id"]: e for e in events}
    for r in v.rejects:
        ev = byid.get(r[2], {})
        rows = [ln.strip() for ln in ev.get("prog", "").split("\n")[2:] if ln.startswith("    ") and "let " not in ln][:3]
        o.violation(f"{r[3]}:{rows}", {"id": ev.get("id"), "prog": ev.get("prog"), "unrolled": ev.get("unrolled"), "expect": ev.get("expect", "ok")},
                    f"{r[3]}\n--- program rows: {rows}\n--- compiled: {ev.get('a', {}).get('lmtext', ev.get('a', {}).get('why', ''))[:400]}\n--- unrolled compiled: {ev.get('b', {}).get('lmtext', ev.get('b', {}).get('why', ''))[:400]}")
    samples = [{"program": e["prog"].split("\nwhere")[0], "unrolled": e["unrolled"].split("\ndefine")[0]} for e in events[::max(1, len(events) // 4)]][:4]
    o.level = "model_checking"
    o.coverage = {
        "states": v.distinct + sum(m.get("gen_states", 0) for m in meta.values()),
        "transitions": v.generated + sum(m.get("gen_transitions", 0) for m in meta.values()),
        "traces_validated_against_impl": len(v.stats),
        "samples": samples,
        "evaluations": len(events),
        "distinct_nontrivial": sum(1 for s in v.stats if s[2] >= 2),
        "rejected_as_specified_ill_scoped": sum(1 for s in v.stats if len(s) > 5 and s[5] == "rejected-as-specified"),
        "compared_before_linearization": sum(1 for s in v.stats if len(s) > 4 and s[4] == 1),
        "rule": "one event = one program from spec/expand/Expand.tla (families one / enum / graph enumerated completely, three-row mixes by TLC simulation) and the text"
                " the specification unrolls from it; both compiled by the real front end and linearizer and compared row for row, and their Models (before linearization) compared constraint by constraint on sample assignments under Sem!Eval; non-trivial = at least two rows after unrolling",
        "exhaustive": tier == "thorough" and not replay,
        "families": meta,
    }
    o.assumptions = ["data (arrays, nested array, weighted graph) is fixed in Expand.tla; binders, terms, aggregations and `for` clauses vary",
                     "min / max / avg over an empty iteration are not generated (no agreed meaning)"]
    return o.finish()
