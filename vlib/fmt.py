"""C11: formatting preserves meaning and is idempotent (FormatTrace.tla)."""
import json
import os

from . import core, parse

SPEC_DIR = os.path.join(core.SPEC, "format")


def programs():
    txt = open(os.path.join(SPEC_DIR, "programs.txt")).read()
    return [p.strip("\n") for p in txt.split("\n=====\n") if p.strip()]


def check(tier, seed, replay=None):
    prop = "C11"
    o = core.Outcome(prop, tier, seed)
    core.build_harness()
    meta = {}
    if replay:
        c = json.load(open(replay))
        cases = [{k: c[k] for k in ("id", "text", "tokens") if k in c}]
    else:
        cases = [{"id": f"prog{i}", "text": p} for i, p in enumerate(programs())]
        cs, g, d = core.gen_cases(SPEC_DIR, "ConstGen.tla", "ConstGen.cfg", "constgen", workers=2)
        meta["ConstGen"] = {"cases": len(cs), "gen_states": d, "gen_transitions": g}
        cases += [{"id": f"const{i}", "text": c["text"]} for i, c in enumerate(cs)]
        cs, g, d = core.gen_cases(SPEC_DIR, "RowGen.tla", "RowGen.cfg", "rowgen", workers=2)
        meta["RowGen"] = {"cases": len(cs), "gen_states": d, "gen_transitions": g}
        cases += [{"id": f"row{i}", "text": c["text"]} for i, c in enumerate(cs)]
        raw = []
        for cfg, n in (("All5.cfg", 2500), ("Ops3.cfg", 1500), ("UnPar.cfg", 500)):
            cs, g, d = core.gen_cases(parse.SPEC_DIR, "TokGen.tla", cfg, "tok" + cfg[:-4], workers=8)
            for i, c in enumerate(cs):
                c["id"] = f"{cfg[:-4]}_{i}"
            meta[cfg[:-4]] = {"cases": len(cs), "gen_states": d, "gen_transitions": g}
            if tier == "quick":
                k = max(1, len(cs) // n)
                cs = cs[seed % k::k]
            raw += cs
        nsim = 30 if tier == "quick" else 1000
        cs, g, d = core.gen_cases(parse.SPEC_DIR, "TokGen.tla", "Sim12.cfg", "tokSim12", workers=1,
                                  extra=["-simulate", f"num={nsim}", "-depth", "14", "-seed", str(seed)], cache_key=[nsim, seed])
        for i, c in enumerate(cs):
            c["id"] = f"Sim12_{seed}_{i}"
        meta["Sim12"] = {"cases": len(cs), "simulated_behaviours": nsim}
        raw += cs[:1000] if tier == "quick" else cs
        for i, c in enumerate(raw):
            for st in ((0, 1) if tier == "thorough" else ((i + seed) % 2,)):
                cases.append(parse.with_text(c, st))
    events = core.rv_parallel("format", cases, prop, procs=8)
    cost = [1 + (6 ** len({t["s"] for t in e["tokens"] if t["k"] == "id"}) if "tokens" in e else 1) for e in events]
    v = core.validate(SPEC_DIR, "FormatTrace.tla", "FormatTrace.cfg", events, prop, prop, chunks=12, cost=cost)
    byid = {e["id"]: e for e in events}
    for r in v.rejects:
        ev = byid.get(r[2], {})
        shown = ev.get("expr") or ev.get("text", "")[:200]
        o.violation(f"{r[3]}:{shown}", {k: ev.get(k) for k in ("id", "text", "tokens") if k in ev},
                    f"{r[3]}: `{shown}` -> `{ev.get('f1', {}).get('text', '')[:300]}`")
    changed = sum(1 for s in v.stats if s[4] == 1)
    samples = [{"original": e["text"], "formatted": e["f1"]["text"]} for e in events[:3] + events[len(events) // 2:len(events) // 2 + 2] if e["f1"]["out"] == "ok"]
    o.level = "model_checking"
    o.coverage = {
        "states": v.distinct + sum(m.get("gen_states", 0) for m in meta.values()),
        "transitions": v.generated + sum(m.get("gen_transitions", 0) for m in meta.values()),
        "traces_validated_against_impl": len(v.stats),
        "samples": samples or [{"note": "none"}],
        "evaluations": len(events),
        "distinct_nontrivial": changed,
        "rule": "one event = one source text (TokGen expression strings in two spellings, incl. every parenthesised shape up to 5 tokens; constant declarations of every literal kind and names with underscores / escapes / string indexes from spec/format/ConstGen.tla; every form of a row - comparison / bare assertion x unnamed / named / index-named x not iterated / one / two indexes - from spec/format/RowGen.tla; hand-written programs"
                " with blocks, iterations, graphs, indexed/escaped names, all declaration forms) formatted by the real formatter, formatted again, both compiled;"
                " non-trivial = formatting changed the text",
        "exhaustive": tier == "thorough" and not replay,
        "programs": len(programs()),
        "families": meta,
        "unverifiable_overflow_count": len(v.overflow_ids),
    }
    o.assumptions = ["model equality is record equality of the serialised Model (trees, names, relations, domains)"]
    return o.finish()
