"""C14: every simplex step preserves equivalence, feasibility and monotonicity.
GEN: spec/simplex/SimplexGen.tla (+ library of classic degenerate/cycling starts)
RUN: rv simplex (Tableau::solve / solve_step_by_step / manual step, hook H3)
VAL: spec/simplex/SimplexTrace.tla (steps of Simplex.tla + state comparison)"""
import json
import os

from . import core

SPEC_DIR = os.path.join(core.SPEC, "simplex")


def library():
    out = []
    for line in open(os.path.join(SPEC_DIR, "library.ndjson")):
        if line.strip():
            out.append(json.loads(line))
    return out


def permutations_of(case, seed, limit):
    """Column / row permutations of a classic degenerate start (the same problem with
    another variable and row order): Dantzig's rule, Bland's rule and the tie-breaks
    all depend on the order, also on where the basic columns sit."""
    import itertools
    import random
    m = len(case["b"])
    n = len(case["c"])
    rnd = random.Random(seed)
    seen = set()
    out = []
    # column j of the permuted tableau holds old column colmap[j]
    shifts = [list(range(n))] + [list(range(k, n)) + list(range(k)) for k in range(1, n)] \
        + [[n - 1] + list(range(n - 1))]
    while len(out) < limit and len(seen) < 5000:
        if len(seen) < len(shifts):
            colmap = shifts[len(seen)]
        else:
            colmap = list(range(n))
            rnd.shuffle(colmap)
        rp = list(range(m))
        if len(seen) >= len(shifts):
            rnd.shuffle(rp)
        key = (tuple(colmap), tuple(rp))
        if key in seen:
            seen.add((key, len(seen)))
            continue
        seen.add(key)
        a = [[case["a"][r][colmap[j]] for j in range(n)] for r in rp]
        b = [case["b"][r] for r in rp]
        c = [case["c"][colmap[j]] for j in range(n)]
        inv = {old: new for new, old in enumerate(colmap)}
        basis = [inv[case["basis"][r] - 1] + 1 for r in rp]
        out.append(dict(case, id=f"{case['id']}_p{len(out)}", a=a, b=b, c=c, basis=basis))
    return out


def run_key(ev):
    return ev["run"].split("#")[0].rsplit("/", 1)[0] + "/" + ev["run"].split("#")[0].rsplit("/", 1)[1]


def check(tier, seed, replay=None):
    prop = "C14"
    o = core.Outcome(prop, tier, seed)
    core.build_harness()
    d = core.rundir(prop)
    meta = {}
    if replay:
        cases = [json.load(open(replay))]
    else:
        cases = library()
        for c in list(cases):
            if c["id"] in ("kuhn", "beale", "beale_chvatal"):
                cases += permutations_of(c, seed, 80 if tier == "quick" else 3000)
        plan = [("Gen22.cfg", "sg22", 1500), ("Gen23.cfg", "sg23", 1000)]
        for cfg, tag, nquick in plan:
            cs, g, dst = core.gen_cases(SPEC_DIR, "SimplexGen.tla", cfg, tag, workers=8)
            for i, c in enumerate(cs):
                c["id"] = f"{tag}_{i}"
            meta[tag] = {"cases": len(cs), "gen_states": dst, "gen_transitions": g}
            if tier == "quick":
                k = max(1, len(cs) // nquick)
                cs = cs[seed % k::k]
            cases += cs
        # larger random start states: TLC simulation of the same generator machine
        nsim = 30 if tier == "quick" else 800
        cs, g, dst = core.gen_cases(SPEC_DIR, "SimplexGen.tla", "Sim34.cfg", "ss34", workers=1,
                                    extra=["-simulate", f"num={nsim}", "-depth", "6", "-seed", str(seed)],
                                    cache_key=[nsim, seed])
        for i, c in enumerate(cs):
            c["id"] = f"ss34_{seed}_{i}"
        meta["ss34"] = {"cases": len(cs), "simulated": nsim}
        cases += cs
    cpath = os.path.join(d, "cases.ndjson")
    lpcases_ = [c for c in cases if "vars" in c]
    cases = [c for c in cases if "vars" not in c]
    if not replay:
        from . import lpcases
        for cfg, n, sim in [("Cont1.cfg", 400, None), ("Cont2.cfg", 700, None),
                            ("SimCont3.cfg", 250 if tier == "quick" else 4000, (3 if tier == "quick" else 40, 9))]:
            cs, m = lpcases.family(cfg, tier if sim is None else "quick", seed, n if tier == "quick" or sim else n * 20, sim)
            meta["lp:" + cfg[:-4]] = m
            lpcases_ += cs
        # starts that need no two-phase method: every row has a singleton column, which for some rows is a model
        # variable with a coefficient other than 1 and a non-zero cost (the direct construction has to scale the
        # row before it reduces the cost row)
        from .solve import B as B_
        nn = lambda n: {"name": n, "kind": "nnreal", "lo": B_(0, 0), "hi": B_(1, 0)}
        rw = lambda a, cmp, b: {"a": a, "cmp": cmp, "b": b, "name": ""}
        lpcases_ += [
            {"id": "h_direct_scaled_basic", "sense": "max", "obj": [3, 1], "off": 0, "den": 1, "vars": [nn("v0"), nn("v1")], "rows": [rw([2, 0], "le", 4), rw([0, 1], "le", 3)]},
            {"id": "h_direct_scaled_basic_eq", "sense": "min", "obj": [2, -1, 1], "off": 1, "den": 1, "vars": [nn("v0"), nn("v1"), nn("v2")],
             "rows": [rw([3, 0, 1], "eq", 6), rw([0, 2, 1], "eq", 4)]},
            {"id": "h_direct_scaled_basic_half", "sense": "max", "obj": [1, 4], "off": 0, "den": 2, "vars": [nn("v0"), nn("v1")], "rows": [rw([1, 0], "le", 3), rw([0, 3], "le", 5)]},
        ]
    core.write_ndjson(cpath, cases)
    events = core.rv(["simplex", "--cases", cpath]) if cases else []
    if lpcases_:
        events += core.rv_parallel("lpsimplex", lpcases_, prop + "-lp", procs=8)
        cases = cases + lpcases_
    v = core.validate(SPEC_DIR, "SimplexTrace.tla", "SimplexTrace.cfg", events, prop, prop, chunks=12,
                      group=lambda e: e["run"].split("#")[0], heads=("RUN",))
    # design level: Simplex.tla on its own, every admissible pivot choice, and Bland's rule
    design = {}
    if not replay:
        for cfg in (("MC_q.cfg", "MC_qb.cfg") if tier == "quick" else ("MC_t.cfg", "MC_tb.cfg")):
            rc, out = core.run_tlc(SPEC_DIR, "MCSimplex.tla", cfg, workers=8, tag="mcsimplex", xmx="8g")
            g, dst = core.tlc_counts(out)
            if rc != 0:
                core.log(out[-3000:])
                raise core.ToolError(f"design-level model check {cfg} failed (specification error, not an implementation verdict)")
            design[cfg] = {"states": dst, "transitions": g}
    bycase = {c["id"]: c for c in cases}
    for r in v.rejects:
        run = r[2]
        cid = run.split("/")[0]
        case = bycase.get(cid, {"id": cid})
        mode = run.split("/")[1].split("#")[0] if "/" in run else "?"
        sig = f"{mode}:{r[3]}:{json.dumps({k: case.get(k) for k in ('a','b','c','basis','z','den','sense','obj','vars','rows')}, sort_keys=True)}"
        o.violation(sig, case, f"run {run}: {r[3]} (event {r[4]})")
    runs = v.other.get("RUN", [])
    piv = [r[3] for r in runs]
    nontrivial = sum(1 for r in runs if r[3] >= 2)
    begun = sum(1 for e in events if e["kind"] == "begin")
    samples = []
    for e in events:
        if e["kind"] == "pivot" and len(samples) < 3:
            samples.append({"run": e["run"], "entering": e["h"], "leaving_row": e["t"], "bland": e["bland"], "observed_b_x1e4": e["obs"]["b"]})
    o.level = "model_checking"
    o.coverage = {
        "states": v.distinct + sum(m.get("gen_states", 0) for m in meta.values()) + sum(x["states"] for x in design.values()),
        "transitions": v.generated + sum(m.get("gen_transitions", 0) for m in meta.values()) + sum(x["transitions"] for x in design.values()),
        "design_model_check": design,
        "traces_validated_against_impl": begun,
        "samples": samples or [{"note": "none"}],
        "evaluations": len(events),
        "distinct_nontrivial": nontrivial,
        "rule": "one behaviour = one real run (solve / solve_step_by_step / manual step loop) from a generated canonical tableau;"
                " every pivot event must be a step of Simplex!Pivot and the float tableau must match the exact successor;"
                " non-trivial = run with at least two pivots",
        "exhaustive": tier == "thorough" and not replay,
        "runs_by_outcome": {k: sum(1 for r in runs if r[2] == k) for k in sorted({r[2] for r in runs})},
        "max_pivots_in_a_run": max(piv) if piv else 0,
        "pivot_events": sum(1 for e in events if e["kind"] == "pivot"),
        "bland_pivots": sum(1 for e in events if e["kind"] == "pivot" and e["bland"]),
        "families": meta,
        "unverifiable_overflow": v.overflow_ids[:10],
    }
    o.assumptions = [
        "integer start data (over a small common denominator); float tableau compared with the exact one at 3e-4",
        "termination is claimed for solve / solve_step_by_step (which own the iteration limit), not for a caller looping on step()",
    ]
    return o.finish()
