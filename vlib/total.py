"""C18: the compiler is total (Pipeline.tla).  Inputs: valid programs, mutation histories
from Mutate.tla (TLC simulation), a nesting ladder up to depth 64, random fragment soup."""
import json
import os
import random
import re

from . import core, fmt, lin, render, rewrite

SPEC_DIR = os.path.join(core.SPEC, "pipeline")
FRAGS = ["min ", "max ", "solve", "\n", "s.t.\n", "where\n", "define\n", " x", " y_1", " x_i", " 1", " 2.5", " + ", " - ", " * ", " / ", " <= ", " >= ", " = ",
         " and ", " or ", " not ", " -> ", " <-> ", "(", ")", "{", "}", "[", "]", ",", ":", " as ", " Real", " Boolean", " IntegerRange(0, 3)", " for ", " in ",
         " 0..3", " 0..=2", " sum(i in 0..3) { x_i }", " abs { x }", " min { x, 1 }", " let a = [1, 2]", " let G = Graph { A -> [B], B }", " len(a)", " a[0]",
         " enumerate(a)", " edges(G)", " \"s\"", " true", " é", " ∑", " 𝔁", "\t", " //c\n", " /* c */", " $v", " \\x_1", "_", " 9223372036854775807", " 1e9"]


def tokens_of(text):
    """white-space tokens with line breaks kept as tokens"""
    out = []
    for line in text.split("\n"):
        out += line.split()
        out.append("\n")
    return out[:-1]


def join(tokens):
    s = ""
    for t in tokens:
        s += t if t == "\n" else (" " + t if s and not s.endswith("\n") else t)
    return s


def ladder():
    out = []
    for d in (1, 2, 4, 8, 12, 16, 32, 64):
        shapes = {
            "paren": f"min {'(' * d}x{')' * d}\ns.t.\n    x >= 1\ndefine\n    x as Real",
            "neg": f"min {'-(' * d}x{')' * d}\ns.t.\n    x >= 1\ndefine\n    x as Real(-5, 5)",
            "abs": f"min {'abs { ' * d}x{' }' * d}\ns.t.\n    x >= 1\ndefine\n    x as Real(-5, 5)",
            "array": f"min 1\ns.t.\n    1 >= 1\nwhere\n    let a = {'[' * d}1{']' * d}",
            "index": f"min x_{{{'(' * d}0{')' * d}}}\ns.t.\n    x_0 >= 1\ndefine\n    x_0 as Real",
            "sum": "min " + "sum(i in 0..2) { " * min(d, 8) + "x" + " }" * min(d, 8) + "\ns.t.\n    x >= 1\ndefine\n    x as Real",
            "implies": "solve\ns.t.\n    " + " -> ".join(["p"] * (d + 1)) + "\ndefine\n    p as Boolean",
            "sub": f"min {' - '.join(['x'] * (4 * d))}\ns.t.\n    x >= 1\ndefine\n    x as Real(0, 1)",
            # nests of min / max blocks (simplify must not visit an operand twice per level) and of iterators that
            # are not ranges (the grammar must not parse the iterator's expression twice per level)
            "minblock": f"min {'min { ' * d}x{' }' * d}\ns.t.\n    x >= 1\ndefine\n    x as Real(-5, 5)",
            "maxconst": f"min {'max { 1, ' * d}x{' }' * d}\ns.t.\n    x >= 1\ndefine\n    x as Real(-5, 5)",
            "minmax": f"min x\ns.t.\n    {'min { max { x, 0 }, ' * (d // 2 + 1)}1{' }' * (d // 2 + 1)} <= 3\ndefine\n    x as Real(-5, 5)",
            "iteridx": "min x\ns.t.\n    x <= " + "".join(f"sum(i{k} in c[" for k in range(d)) + "0" + "]) { 0 }" * d + "\nwhere\n    let c = [[0]]\ndefine\n    x as Real(0, 1)",
        }
        for k, t in shapes.items():
            out.append({"id": f"ladder_{k}_{d}", "text": t, "depth": d, "kind": "ladder_" + k})
    # width: aggregations over many elements and long operator chains (the expression trees must not get deep with them);
    # the widths stay where the dense standard form (rows x columns) is a few million entries
    for n in (100, 1000, 5000, 20000):
        shapes = {
            "sumconst": f"min x\ns.t.\n    x >= sum(i in 0..{n}) {{ 1 }}\ndefine\n    x as Real",
            "sumvars": f"min sum(i in 0..{n}) {{ x_i }}\ns.t.\n    x_0 >= 1\ndefine\n    x_i as NonNegativeReal for i in 0..{n}",
            "prodconst": f"min prod(i in 0..{min(n, 1000)}) {{ 1 }} * x\ns.t.\n    x >= 1\ndefine\n    x as Real(0, 5)",
            "avgvars": f"min avg(i in 0..{min(n, 5000)}) {{ x_i }}\ns.t.\n    x_0 >= 1\ndefine\n    x_i as NonNegativeReal for i in 0..{min(n, 5000)}",
            "rows": f"min x_0\ns.t.\n    x_i + x_0 >= 1 for i in 0..{min(n, 200)}\ndefine\n    x_i as NonNegativeReal for i in 0..{min(n, 200)}",
            "chain": f"min x\ns.t.\n    x >= {' + '.join(['1'] * min(n, 3000))}\ndefine\n    x as Real",
            "xorvars": f"solve\ns.t.\n    xor(i in 0..{min(n, 300)}) {{ x_i }}\ndefine\n    x_i as Boolean for i in 0..{min(n, 300)}",
            # a product of sums of variables is not linear: it must be refused without being multiplied out
            "prodsum": f"min x\ns.t.\n    {' * '.join(['(x + y)'] * min(n // 50 + 4, 60))} <= 1\ndefine\n    x, y as Real(0, 1)",
        }
        for k, t in shapes.items():
            out.append({"id": f"wide_{k}_{n}", "text": t, "depth": n, "kind": "ladder_wide_" + k})
    # the fluent builder's sum() over many variables (no source text: the child builds the model itself)
    for n in (100, 1000, 5000):
        out.append({"id": f"wide_buildersum_{n}", "text": f"(builder) min sum(x_0 .. x_{n - 1}) s.t. x_0 >= 1", "depth": n, "kind": "ladder_wide_buildersum", "builder_sum": n})
    # flat operator chains within the 4 KiB of the property, on a thread with the default stack of a spawned
    # Rust thread (2 MiB) instead of the main thread of the child process
    for n in (200, 1000, 2000):
        for k, op in (("add", "+"), ("and", "&&"), ("mulone", "*1")):
            body = op.join(["x"] * n) if k != "mulone" else "x" + "*1" * n
            decl = "x as Boolean" if k == "and" else "x as Real(0, 1)"
            t = (f"solve\ns.t.\n    {body}\ndefine\n    {decl}" if k == "and" else f"max {body}\ns.t.\n    x <= 1\ndefine\n    {decl}")
            out.append({"id": f"thread_{k}_{n}", "text": t, "depth": n, "kind": "ladder_thread_" + k, "stack": "thread"})
    return out


EXTREME = [
    "min b\ns.t.\n    b >= 1\nwhere\n    let a = -9223372036854775807 - 1\n    let b = -a",
    "min 1\ns.t.\n    1 >= 1\nwhere\n    let a = 18446744073709551615\n    let b = -a\n    let c = a + 1\n    let d = a * a",
    "min 1\ns.t.\n    1 >= 1\nwhere\n    let a = 9223372036854775807\n    let b = a + 1\n    let c = a * 2\n    let d = 0 - a - 2",
    "min x_18446744073709551615\ns.t.\n    x_18446744073709551615 >= 1\ndefine\n    x_18446744073709551615 as Real",
    "min x\ns.t.\n    x >= 1 / 0\ndefine\n    x as Real",
    "min x\ns.t.\n    x >= 1\ndefine\n    x as IntegerRange(-2147483649, 2147483648)",
    "min x\ns.t.\n    x >= 1\ndefine\n    x as IntegerRange(5, 1)",
    "min x\ns.t.\n    x >= 1\ndefine\n    x as Real(Infinity, MinusInfinity)",
    "min sum(i in 5..0) { x_i }\ns.t.\n    1 >= 1",
    "min a[18446744073709551615]\ns.t.\n    1 >= 1\nwhere\n    let a = [1, 2]",
    "min a[0 - 1]\ns.t.\n    1 >= 1\nwhere\n    let a = [1, 2]",
    "min sum(i in 0..1000001) { 1 }\ns.t.\n    1 >= 1",
    "min 99999999999999999999999999999999999999 * x\ns.t.\n    x >= 0.00000000000000000000000000000000000001\ndefine\n    x as Real",
    "min avg { }\ns.t.\n    min { } >= 1",
    "min sum(i in lo..hi) { i }\ns.t.\n    1 >= 1\nwhere\n    let lo = -9223372036854775807\n    let hi = 9223372036854775807",
    "min 1\ns.t.\n    x_i >= 0 for i in -9223372036854775807..9223372036854775807\ndefine\n    x_i as Boolean for i in 0..2",
    "min 1\ns.t.\n    1 >= 1\ndefine\n    x_i as Boolean for i in 0..=9223372036854775807",
    "min sum(i in -9223372036854775807..=0) { 1 }\ns.t.\n    1 >= 1",
    "min sum(i in 9223372036854775806..9223372036854775807) { x_i }\ns.t.\n    1 >= 1\ndefine\n    x_i as Boolean for i in 9223372036854775806..9223372036854775807",
    "min a[9223372036854775807 + 0]\ns.t.\n    1 >= 1\nwhere\n    let a = [1, 2]",
    "min len(a) - 9223372036854775807 - 9223372036854775807\ns.t.\n    1 >= 1\nwhere\n    let a = [1, 2]",
    # nested iterations whose ranges are small one by one and huge together
    "min sum(i in 0..1000, j in 0..1000, k in 0..1000) { 1 }\ns.t.\n    1 >= 1",
    "min 1\ns.t.\n    x_i_j >= 0 for i in 0..100000, j in 0..100000\ndefine\n    x_i_j as Boolean for i in 0..2, j in 0..2",
    "min 1\ns.t.\n    1 >= 1\ndefine\n    x_i_j_k as Boolean for i in 0..1000, j in 0..1000, k in 0..1000",
    "min sum(i in 0..999999) { sum(j in 0..999999) { 1 } }\ns.t.\n    1 >= 1",
    # unsigned values beyond the signed range (i * i with i = 3037000500) in sums, names and ranges
    "max x\ns.t.\n    x <= sum(j in (i * i)..=(i * i)) { j } for i in 3037000500..3037000501\ndefine\n    x as Real(0, 10)",
    "min x_{i * i - 1}\ns.t.\n    x_{i * i - 1} >= 1\nwhere\n    let i = 3037000500\ndefine\n    x_{i * i - 1} as Real",
    "min x\ns.t.\n    x >= k - 1 + 0\nwhere\n    let i = 4294967296\n    let k = i * i / 2 + i * 2147483648\ndefine\n    x as Real",
]


def extreme_ops():
    """Every arithmetic operator between an integer at the limit of its range and an operand of every numeric kind
    (integer, Boolean literal, Boolean constant, float, unsigned beyond i64), both orders, in a `let` (evaluated)."""
    lims = ["9223372036854775807", "(0 - 9223372036854775807 - 1)", "18446744073709551615", "9223372036854775808"]
    others = ["true", "B", "1", "2", "0.5", "(0 - 1)", "9223372036854775807", "18446744073709551615"]
    out = []
    for a in lims:
        for b in others:
            for op in ("+", "-", "*", "/"):
                for l, r in ((a, b), (b, a)):
                    out.append(f"min x\ns.t.\n    x >= 1\nwhere\n    let B = true\n    let k = {l} {op} {r}\ndefine\n    x as Real(0, 5)")
    return out


def soup(seed, n):
    rnd = random.Random(seed)
    out = []
    for i in range(n):
        k = rnd.randint(1, 60)
        t = "".join(rnd.choice(FRAGS) for _ in range(k))[:4096]
        out.append({"id": f"soup{seed}_{i}", "text": t, "kind": "soup"})
    # raw noise, valid UTF-8
    for i in range(n // 4):
        t = "".join(chr(rnd.choice([rnd.randint(32, 126), rnd.randint(0x80, 0x2FF), 10, 9, rnd.randint(0x4E00, 0x4E40), 0x1F600])) for _ in range(rnd.randint(1, 300)))
        out.append({"id": f"noise{seed}_{i}", "text": t, "kind": "noise"})
    return out


def check(tier, seed, replay=None):
    prop = "C18"
    o = core.Outcome(prop, tier, seed)
    core.build_harness()
    d = core.rundir(prop)
    meta = {}
    if replay:
        c = json.load(open(replay))
        cases = [{"id": c.get("id", "replay"), "text": c["text"], "depth": c.get("depth", 0), "kind": c.get("kind", "")}]
    else:
        progs = fmt.programs()
        kcases, kmeta = lin.gen_all("quick", seed, per_family_quick=12)
        progs += [render.model_text(c, rewrite.plain) for c in kcases]
        cases = [{"id": f"valid{i}", "text": p, "kind": "valid"} for i, p in enumerate(progs)]
        cases += ladder()
        cases += [{"id": f"extreme{i}", "text": t, "kind": "extreme"} for i, t in enumerate(EXTREME + extreme_ops())]
        cases += soup(seed, 300 if tier == "quick" else 6000)
        ix, g, dd = core.gen_cases(SPEC_DIR, "IndexGen.tla", "IndexGen.cfg", "indexgen", workers=2)
        meta["IndexGen"] = {"cases": len(ix), "gen_states": dd, "gen_transitions": g}
        cases += [{"id": f"index{i}", "text": c["text"], "kind": "index"} for i, c in enumerate(ix)]
        # the type-perturbed programs of C19 (one or two positions filled with a value of every kind)
        tg, g, dd = core.gen_cases(os.path.join(core.SPEC, "types"), "TypeGen.tla", "TypeGen.cfg", "typegen", workers=4)
        meta["TypeGen"] = {"cases": len(tg), "gen_states": dd, "gen_transitions": g}
        k = 1 if tier == "thorough" else max(1, len(tg) // 1500)
        cases += [{"id": f"typed{i}", "text": c["text"], "kind": "typed"} for i, c in list(enumerate(tg))[seed % k::k]]
        # mutation histories from the TLA+ machine
        base = os.path.join(d, "base.ndjson")
        core.write_ndjson(base, [tokens_of(p) for p in progs[:40]])
        nsim = 25 if tier == "quick" else 300
        ms, g, dd = core.gen_cases(SPEC_DIR, "Mutate.tla", "Mutate.cfg", "mutate", workers=1, env={"BASE": base},
                                   extra=["-simulate", f"num={nsim}", "-depth", "4", "-seed", str(seed)],
                                   cache_key=[nsim, seed, len(progs)])
        meta["Mutate"] = {"cases": len(ms), "simulated_behaviours": nsim}
        rnd = random.Random(seed)
        # (every behaviour of the machine prints one case per step and base program: the thorough tier keeps a
        # seeded sample of 60000 of the millions it generates - each case is a child process)
        cap = 2500 if tier == "quick" else 60000
        if len(ms) > cap:
            ms = rnd.sample(ms, cap)
        for i, m in enumerate(ms):
            cases.append({"id": f"mut{seed}_{i}", "text": join(m["tokens"])[:4096], "kind": "mutant_" + m["last"]})
    limit = 12000
    events = core.rv_parallel("total", cases, prop, extra=["--limit-ms", str(limit)], procs=14, timeout=7200)
    for e in events:
        e.pop("text", None)       # texts stay in the case files; TLC only needs the stage records
    v = core.validate(SPEC_DIR, "Pipeline.tla", "Pipeline.cfg", events, prop, prop, chunks=8)
    bycase = {c["id"]: c for c in cases}
    for r in v.rejects:
        c = bycase.get(r[2], {})
        cause = re.sub(r"\d+", "N", r[3])
        kind = c.get("kind", "")
        sig = f"{cause} [{kind}]" if kind.startswith("ladder") else f"{cause}:{c.get('text')}"
        o.violation(sig, c, f"{r[3]} on input ({kind}, depth {c.get('depth', 0)}):\n{c.get('text', '')[:300]}")
    reached = {}
    for e in events:
        n = sum(1 for s in e["stages"] if s["res"] == "ok")
        reached[n] = reached.get(n, 0) + 1
    growth = {}
    for e in events:
        if str(e.get("kind", "")).startswith("ladder"):
            growth.setdefault(e["kind"], {})[e["depth"]] = max([s["ms"] for s in e["stages"]] + [0])
    samples = [{"id": c["id"], "kind": c.get("kind"), "text": c["text"][:160]} for c in (cases[::max(1, len(cases) // 5)])[:5]]
    o.level = "exploration"
    o.coverage = {
        "evaluations": len(events),
        "distinct_nontrivial": sum(1 for e in events if len(e["stages"]) >= 3),
        "rule": "one event = one input string run through every public stage in a child process under a watchdog (12 s per input, 4 s per stage);"
                " inputs: valid programs, Mutate.tla mutation histories (TLC simulation), a nesting ladder (depth 1..64 in eight shapes), fragment soup and UTF-8 noise;"
                " non-trivial = input that got past parsing",
        "samples": samples,
        "inputs_by_number_of_successful_stages": reached,
        "ladder_max_stage_ms_by_depth": growth,
        "states": v.distinct, "transitions": v.generated,
        "families": meta,
    }
    o.assumptions = ["a hang is only observable as the watchdog limit; memory safety is out of scope", "inputs are at most 4 KiB"]
    return o.finish()
