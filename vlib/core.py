"""Shared driver code: build the harness from /repo's working tree, run TLC as
generator (GEN) and as trace validator (VAL), collect verdicts, write
evidence, apply the known-findings file.  No property logic lives here: every
verdict is a REJECT line printed by a TLA+ trace specification."""
import hashlib
import json
import os
import re
import shutil
import subprocess
import sys
import time
from concurrent.futures import ThreadPoolExecutor

ROOT = os.path.dirname(os.path.dirname(os.path.abspath(__file__)))
RUNS = os.path.join(ROOT, "runs")
SPEC = os.path.join(ROOT, "spec")
HARNESS = os.path.join(ROOT, "harness")
EVID = os.path.join(ROOT, "evidence")
JAR = "/opt/veriftools/tla/tla2tools.jar"
CM = "/opt/veriftools/tla/CommunityModules-deps.jar"
RV = os.path.join(HARNESS, "target", "debug", "rv")


class ToolError(Exception):
    pass


def log(*a):
    print(*a, file=sys.stderr, flush=True)


def build_harness():
    """cargo build of the harness against /repo's current working tree."""
    t0 = time.time()
    lock = os.path.join(HARNESS, "Cargo.lock")
    if not os.path.exists(lock):
        shutil.copy("/repo/packages/rooc/Cargo.lock", lock)
    env = dict(os.environ, CARGO_NET_OFFLINE="true")
    p = subprocess.run(["cargo", "build", "--offline"], cwd=HARNESS, env=env,
                       stdout=subprocess.PIPE, stderr=subprocess.STDOUT, text=True)
    if p.returncode != 0:
        log(p.stdout[-4000:])
        raise ToolError("harness build failed")
    log(f"[build] harness ok in {time.time()-t0:.1f}s")
    return RV


def rv(args, stdin=None, timeout=3600):
    """Run the harness; returns list of JSON events from stdout."""
    p = subprocess.run([RV] + args, input=stdin, stdout=subprocess.PIPE,
                       stderr=subprocess.PIPE, text=True, timeout=timeout)
    if p.returncode != 0:
        log(p.stderr[-2000:])
        raise ToolError(f"harness {args[:1]} exited {p.returncode}")
    out = []
    for line in p.stdout.split("\n"):      # not splitlines(): U+0085 / U+2028 may occur inside JSON strings
        line = line.strip(" \t\r")
        if line:
            out.append(json.loads(line))
    return out


def rv_parallel(cmd, cases, tag, extra=(), procs=8, timeout=3600):
    """Run `rv <cmd> --cases chunk` on several processes; events keep case order."""
    d = rundir(tag)
    procs = max(1, min(procs, len(cases)))
    chunks = [cases[i::procs] for i in range(procs)]
    paths = []
    for i, ch in enumerate(chunks):
        pth = os.path.join(d, f"cases{i}.ndjson")
        write_ndjson(pth, ch)
        paths.append(pth)
    with ThreadPoolExecutor(max_workers=procs) as ex:
        outs = list(ex.map(lambda pth: rv([cmd, "--cases", pth] + list(extra), timeout=timeout), paths))
    return [e for o in outs for e in o]


def rundir(prop):
    d = os.path.join(RUNS, prop)
    os.makedirs(d, exist_ok=True)
    return d


def write_ndjson(path, items):
    with open(path, "w") as f:
        for it in items:
            f.write(json.dumps(it, separators=(",", ":")) + "\n")


# --------------------------------------------------------------------------
# TLC
# --------------------------------------------------------------------------
_tok = re.compile(r'\s*(<<|>>|,|"(?:[^"\\]|\\.)*"|-?\d+|TRUE|FALSE|[A-Za-z_][A-Za-z0-9_]*)')


def parse_tla(s):
    """Parse a TLA+ value printed by PrintT made of tuples, strings, ints, booleans."""
    pos = 0
    stack = [[]]
    while pos < len(s):
        m = _tok.match(s, pos)
        if not m:
            break
        t = m.group(1)
        pos = m.end()
        if t == "<<":
            stack.append([])
        elif t == ">>":
            top = stack.pop()
            stack[-1].append(top)
        elif t == ",":
            pass
        elif t.startswith('"'):
            try:
                stack[-1].append(json.loads(t))
            except Exception:
                stack[-1].append(t[1:-1])
        elif t == "TRUE":
            stack[-1].append(True)
        elif t == "FALSE":
            stack[-1].append(False)
        elif re.fullmatch(r"-?\d+", t):
            stack[-1].append(int(t))
        else:
            stack[-1].append(t)
    return stack[0][0] if stack[0] else None


def tlc_cmd(module, cfg, workers=1, extra=(), xmx="3g", lib=None):
    libs = os.pathsep.join([os.path.join(SPEC, "common")] + (lib or []))
    return ["java", "-XX:+UseParallelGC", f"-Xmx{xmx}", "-Xss1g",
            "-Dtlc2.tool.queue.IStateQueue=StateDeque",
            f"-DTLA-Library={libs}",
            "-cp", f"{JAR}:{CM}", "tlc2.TLC",
            # (no checkpoints: the depth-first queue does not support them, and a validation that runs longer
            # than TLC's 30-minute checkpoint interval would end with an exception)
            "-workers", str(workers), "-noGenerateSpecTE", "-cleanup", "-checkpoint", "0",
            "-config", cfg] + list(extra) + [module]


def run_tlc(spec_dir, module, cfg, env=None, workers=1, extra=(), tag="t", timeout=7200, xmx="3g"):
    """Run TLC in spec_dir; returns (returncode, stdout)."""
    meta = os.path.join(RUNS, "meta", f"{tag}-{os.getpid()}-{time.time_ns()}")
    os.makedirs(meta, exist_ok=True)
    cmd = tlc_cmd(module, cfg, workers, list(extra) + ["-metadir", meta], xmx=xmx)
    e = dict(os.environ)
    e.pop("JAVA_TOOL_OPTIONS", None)
    if env:
        e.update({k: str(v) for k, v in env.items()})
    try:
        p = subprocess.run(cmd, cwd=spec_dir, env=e, stdout=subprocess.PIPE,
                           stderr=subprocess.STDOUT, text=True, timeout=timeout)
        rc, out = p.returncode, p.stdout
    except subprocess.TimeoutExpired as ex:
        rc, out = 124, (ex.stdout or b"").decode() if isinstance(ex.stdout, bytes) else (ex.stdout or "")
    shutil.rmtree(meta, ignore_errors=True)
    return rc, out


_states_re = re.compile(r"(\d+) states generated, (\d+) distinct states found")


def tlc_counts(out):
    m = None
    for m in _states_re.finditer(out):
        pass
    if m:
        return int(m.group(1)), int(m.group(2))
    return 0, 0


def printed_values(out):
    """All top-level `<< ... >>` values printed by PrintT; TLC pretty-prints long
    tuples over several lines, so a value extends until its brackets balance."""
    lines = out.splitlines()
    i = 0
    while i < len(lines):
        line = lines[i]
        if line.startswith("<<"):
            buf = line
            depth = _depth(line)
            while depth > 0 and i + 1 < len(lines):
                i += 1
                buf += " " + lines[i].strip()
                depth += _depth(lines[i])
            yield buf
        i += 1


_strlit = re.compile(r'"(?:[^"\\]|\\.)*"')


def _depth(line):
    bare = _strlit.sub('""', line)
    return bare.count("<<") - bare.count(">>")


def tuples(out, head):
    """All printed tuples whose first element is `head`."""
    res = []
    for text in printed_values(out):
        v = parse_tla(text)
        if isinstance(v, list) and v and v[0] == head:
            res.append(v)
    return res


def gen_cases(spec_dir, module, cfg, tag, env=None, workers=4, extra=(), timeout=3600, cache_key=None):
    """GEN: run a generator machine; every `<<"CASE", json>>` line is one case.
    Cached under runs/gen by hash of the spec directory + common + cfg + env."""
    h = hashlib.sha256()
    for d in (spec_dir, os.path.join(SPEC, "common")):
        for fn in sorted(os.listdir(d)):
            if fn.endswith((".tla", ".cfg")):
                h.update(fn.encode())
                h.update(open(os.path.join(d, fn), "rb").read())
    h.update(json.dumps([module, cfg, env, list(extra), cache_key], sort_keys=True).encode())
    key = h.hexdigest()[:20]
    cdir = os.path.join(RUNS, "gen")
    os.makedirs(cdir, exist_ok=True)
    cpath = os.path.join(cdir, f"{tag}-{key}.json")
    if os.path.exists(cpath):
        d = json.load(open(cpath))
        return d["cases"], d["generated"], d["distinct"]
    rc, out = run_tlc(spec_dir, module, cfg, env=env, workers=workers, extra=extra, tag=tag, timeout=timeout, xmx="8g")
    if rc != 0:
        log(out[-3000:])
        raise ToolError(f"GEN {module} failed rc={rc}")
    cases = []
    for t in tuples(out, "CASE"):
        c = t[1]
        if isinstance(c, str):
            c = json.loads(c)
        cases.append(c)
    # stable order and de-duplication (several workers may print in any order)
    seen = {}
    for c in cases:
        k = json.dumps(c, sort_keys=True)
        seen.setdefault(k, c)
    cases = [seen[k] for k in sorted(seen)]
    g, dst = tlc_counts(out)
    json.dump({"cases": cases, "generated": g, "distinct": dst}, open(cpath, "w"))
    return cases, g, dst


def _uniq(ts):
    """TLC re-executes a behaviour (and its PrintT side effects) when it reports an
    evaluation error; identical tuples of one run are the same report."""
    seen, out = set(), []
    for t in ts:
        k = json.dumps(t, sort_keys=True)
        if k not in seen:
            seen.add(k)
            out.append(t)
    return out


class Val:
    """Result of validating an event file against a trace specification."""

    def __init__(self):
        self.rejects = []      # parsed REJECT tuples
        self.stats = []        # parsed STAT tuples
        self.skips = []
        self.other = {}
        self.generated = 0
        self.distinct = 0
        self.accepted = 0
        self.overflow_ids = []
        self.wall = 0.0


def _val_chunk(spec_dir, module, cfg, path, n_events, props, tag, extra_env, heads, ids):
    start = 1
    outs = []
    overflow = []
    restarts = 0
    guard = 0
    while start <= n_events:
        env = dict(TRACE=path, PROPS=props, START=start)
        env.update(extra_env or {})
        rc, out = run_tlc(spec_dir, module, cfg, env=env, tag=tag)
        outs.append(out)
        if rc == 0:
            break
        # evaluation error (typically 32-bit overflow): find the event, skip it, resume
        m = None
        for m in re.finditer(r"^/?\\?\s*l = (\d+)\s*$", out, re.M):
            pass
        if ("overflow" in out or "Overflow" in out) and m:
            bad = int(m.group(1))
            overflow.append(ids[bad - 1] if bad - 1 < len(ids) else str(bad))
            start = bad + 1
            guard += 1
            if guard > 200:
                raise ToolError("too many overflow restarts")
            continue
        # an INVARIANT of the trace specification is violated by the state an event induces: that is a verdict
        # (reported like a REJECT of the event), not a tool failure; validation resumes after the event
        inv = re.search(r"Invariant (\w+) is violated", out)
        if inv and m:
            bad = int(m.group(1))
            eid = ids[bad - 1] if 0 < bad <= len(ids) else str(bad)
            first = props.split(",")[0]
            outs.append(f'<<"REJECT", "{first}", "{eid}", "invariant {inv.group(1)} of the specification is violated by the state this event induces", {bad}>>\n')
            start = bad + 1
            guard += 1
            restarts += 1
            if guard > 200:
                raise ToolError("too many invariant restarts")
            continue
        log(out[-5000:])
        raise ToolError(f"VAL {module} failed rc={rc} on {path}")
    return outs, overflow, restarts


def validate(spec_dir, module, cfg, events, props, tag, chunks=8, extra_env=None, cost=None, heads=(), group=None):
    """VAL: split events into chunks, one single-worker TLC per chunk in parallel.
    `group(ev)` keeps all events with the same key contiguous, in order, in one chunk
    (stateful traces: one behaviour per group)."""
    v = Val()
    t0 = time.time()
    if not events:
        return v
    d = rundir(tag)
    # units: lists of event indices that must stay together
    if group:
        units, index = [], {}
        for i, e in enumerate(events):
            k = group(e)
            if k not in index:
                index[k] = len(units)
                units.append([])
            units[index[k]].append(i)
    else:
        units = [[i] for i in range(len(events))]
    ucost = [sum((cost[i] if cost else 1) for i in u) for u in units]
    chunks = max(1, min(chunks, len(units)))
    order = sorted(range(len(units)), key=lambda u: -ucost[u])
    bins = [[] for _ in range(chunks)]
    load = [0] * chunks
    for u in order:
        k = load.index(min(load))
        bins[k].append(u)
        load[k] += ucost[u]
    jobs = []
    for k, us in enumerate(bins):
        if not us:
            continue
        us.sort()
        idxs = [i for u in us for i in units[u]]
        path = os.path.join(d, f"chunk{k}.ndjson")
        write_ndjson(path, [events[i] for i in idxs])
        ids = [str(events[i].get("id", events[i].get("run", i))) for i in idxs]
        jobs.append((path, len(idxs), ids))
    with ThreadPoolExecutor(max_workers=len(jobs)) as ex:
        futs = [ex.submit(_val_chunk, spec_dir, module, cfg, p, n, props, tag, extra_env, heads, ids)
                for (p, n, ids) in jobs]
        for f in futs:
            outs, overflow, restarts = f.result()
            v.overflow_ids += overflow
            v.restarts = getattr(v, "restarts", 0) + restarts
            for out in outs:
                g, dst = tlc_counts(out)
                v.generated += g
                v.distinct += dst
                rj = tuples(out, "REJECT")
                if len(rj) != len(re.findall(r'<<\s*"REJECT"', out)):
                    raise ToolError("REJECT lines printed by TLC could not all be parsed")
                v.rejects += _uniq(rj)
                v.stats += _uniq(tuples(out, "STAT"))
                v.skips += tuples(out, "SKIP")
                for h in heads:
                    v.other.setdefault(h, []).extend(_uniq(tuples(out, h)))
                for a in tuples(out, "ACCEPTED"):
                    v.accepted += a[1]
    v.wall = time.time() - t0
    if not v.overflow_ids and not getattr(v, "restarts", 0) and v.accepted != len(events):
        raise ToolError(f"VAL {module}: consumed {v.accepted} of {len(events)} events")
    return v


# --------------------------------------------------------------------------
# verdicts, known findings, evidence
# --------------------------------------------------------------------------
def load_known():
    p = os.path.join(ROOT, "known_findings.json")
    if not os.path.exists(p):
        return []
    return json.load(open(p)).get("findings", [])


def match_known(prop, signature):
    """A violation is known iff an *open* entry of this property has a signature
    that equals the violation's signature (`fixed` entries suppress nothing)."""
    for f in load_known():
        if f.get("property") == prop and f.get("status") == "open" and f.get("signature") == signature:
            return f
    return None


class Outcome:
    def __init__(self, prop, tier, seed):
        self.prop, self.tier, self.seed = prop, tier, seed
        self.t0 = time.time()
        self.violations = []   # (signature, replay_path, text)
        self.known = {}        # signature -> (finding, count)
        self.coverage = {}
        self.assumptions = []
        self.level = "exploration"

    def violation(self, signature, case, text):
        k = match_known(self.prop, signature)
        if k is not None:
            cnt = self.known.get(signature, (k, 0))[1]
            self.known[signature] = (k, cnt + 1)
            return
        d = rundir(self.prop)
        os.makedirs(os.path.join(d, "replay"), exist_ok=True)
        h = hashlib.sha256(json.dumps(case, sort_keys=True).encode()).hexdigest()[:12]
        path = os.path.join(d, "replay", f"{h}.json")
        json.dump(case, open(path, "w"), indent=1)
        self.violations.append((signature, path, text))

    def finish(self):
        os.makedirs(EVID, exist_ok=True)
        ev = {
            "property_id": self.prop,
            "tier": self.tier,
            "seed": self.seed,
            "level": self.level,
            "coverage": self.coverage,
            "assumptions": self.assumptions,
            "wall_s": round(time.time() - self.t0, 2),
            "violations": len(self.violations),
        }
        if self.known:
            ev["coverage"]["known_findings_seen"] = {s: c for s, (k, c) in self.known.items()}
        json.dump(ev, open(os.path.join(EVID, f"{self.prop}.json"), "w"), indent=1)
        for s, (k, c) in sorted(self.known.items()):
            print(f"KNOWN-FINDING: property={self.prop} {k.get('what', s)} [signature={s}; seen {c}x]")
        seen = set()
        per_class = {}
        for sig, path, text in self.violations:
            k = re.split(r":(?=[^ ])|\n", sig)[0][:140]
            per_class[k] = per_class.get(k, 0) + 1
            # a few examples of every class of violation, at most 40 in all
            if per_class[k] <= 3 and len(seen) < 40 and path not in seen:
                print(f"VIOLATION property={self.prop} replay={path}")
                print(f"  {text}"[:900])
                seen.add(path)
        if self.violations:
            by = {}
            for sig, path, text in self.violations:
                by[sig[:120]] = by.get(sig[:120], 0) + 1
            for sig, n in sorted(by.items(), key=lambda kv: -kv[1])[:8]:
                print(f"  {n:5d} x {sig}")
            cls = {}
            for sig, path, text in self.violations:
                k = re.split(r":(?=[^ ])|\n", sig)[0][:140]
                cls[k] = cls.get(k, 0) + 1
            print("  by class:")
            for k, n in sorted(cls.items(), key=lambda kv: -kv[1])[:25]:
                print(f"  {n:5d} x {k}")
            print(f"{self.prop}: {len(self.violations)} violation(s)")
            return 1
        print(f"{self.prop}: ok ({self.tier}, seed {self.seed}, {ev['wall_s']}s)")
        return 0
