"""C07: derived ranges are sound.  (a) published ranges of compiled models on
corpus K (LinTrace), (b)+(c) the analyzer itself through hook H1 (BoundsTrace)."""
import json
import os

from . import core, lin

SPEC_DIR = os.path.join(core.SPEC, "bounds")


def annotate(ev, tier):
    if ev.get("out") != "ok":
        ev["g"] = 1
        return 1
    used = [d for d in ev["sdom"] if d["used"]]
    budget = 800 if tier == "quick" else 6000
    g = 4 if tier == "thorough" else 2
    while True:
        n = 1
        for d in used:
            n *= lin.n_samples(d, g)
        if n <= budget or g == 1:
            break
        g //= 2
    ev["g"] = g
    return n * (1 + len(ev.get("subs", []))) + 1


def check(tier, seed, replay=None):
    prop = "C07"
    o = core.Outcome(prop, tier, seed)
    core.build_harness()
    d = core.rundir(prop)
    meta = {}
    if replay:
        ev = json.load(open(replay))
        if "box" in ev or "maxsteps" in ev:
            case = {"id": ev["id"].split("@")[0], "sense": ev["sense"], "obj": ev["obj"], "cons": ev["cons"],
                    "dom": [{k: x[k] for k in ("name", "kind", "lo", "hi")} for x in ev["sdom"]]}
            cpath = os.path.join(d, "replay_cases.ndjson")
            core.write_ndjson(cpath, [case])
            bevents = core.rv(["bounds", "--cases", cpath])
            kevents = []
        else:
            kevents = lin.replay_events(replay)
            bevents = []
    else:
        # (b)+(c): generator families + seeded random
        if tier == "quick":
            cases, g2, d2 = core.gen_cases(SPEC_DIR, "BoundsGen.tla", "Gen2.cfg", "bgen2")
            k = max(1, len(cases) // 500)
            for i, c in enumerate(cases):
                c["id"] = f"B2_{i}"
            cases = cases[seed % k::k]
            meta["BoundsGen2"] = {"gen_states": d2, "gen_transitions": g2}
            nrand = 150
        else:
            cases, g3, d3 = core.gen_cases(SPEC_DIR, "BoundsGen.tla", "Gen3.cfg", "bgen3", workers=8)
            for i, c in enumerate(cases):
                c["id"] = f"B3_{i}"
            k = 6   # every 6th ordered triple; all pairs are included below
            cases = cases[seed % k::k]
            c2, g2, d2 = core.gen_cases(SPEC_DIR, "BoundsGen.tla", "Gen2.cfg", "bgen2")
            for i, c in enumerate(c2):
                c["id"] = f"B2_{i}"
            cases += c2
            meta["BoundsGen3"] = {"gen_states": d3, "gen_transitions": g3, "stride": k}
            meta["BoundsGen2"] = {"gen_states": d2, "gen_transitions": g2}
            nrand = 2000
        cpath = os.path.join(d, "cases.ndjson")
        core.write_ndjson(cpath, cases)
        bevents = core.rv(["bounds", "--cases", cpath, "--random", str(nrand), "--seed", str(seed),
                           "--depth", "3" if tier == "thorough" else "2"])
        kevents = None
    costs = [annotate(e, tier) for e in bevents]
    vb = core.validate(SPEC_DIR, "BoundsTrace.tla", "BoundsTrace.cfg", bevents, "C07", prop + "-b", chunks=12, cost=costs)
    byid = {e["id"]: e for e in bevents}
    for r in vb.rejects:
        ev = byid.get(r[2], {})
        sig = f"{r[3]}:{lin.src_hash(ev)}:{ev.get('maxsteps')}"
        o.violation(sig, ev, f"analyzer {r[3]} unsound (max_steps={ev.get('maxsteps')}) for [{ev.get('srctext','?')}] at {r[4] if len(r) > 4 else ''}")
    # (a): published ranges on corpus K
    if kevents is None:
        kevents, vk, kmeta = lin.run_corpus(tier, seed, "C07", prop + "-k",
                                            n_random=300 if tier == "quick" else 4000)
        meta.update(kmeta)
    else:
        for e in kevents:
            lin.annotate(e, "thorough")
        vk = core.validate(lin.SPEC_DIR, "LinTrace.tla", "LinTrace.cfg", kevents, "C07,STA", prop + "-k", chunks=1)
    kby = {e["id"]: e for e in kevents}
    for r in vk.rejects:
        if r[1] != "C07":
            continue
        ev = kby.get(r[2], {})
        o.violation(f"published:{lin.src_hash(ev)}", ev, f"published range excludes a feasible point for [{ev.get('srctext','?')}] at {r[4] if len(r) > 4 else ''}")
    tightened = 0
    for e in kevents:
        if e.get("out") == "ok" and "lm" in e:
            sd = {x["name"]: x for x in e["sdom"]}
            if any((not v["aux"]) and (v["lo"] != sd[v["name"]]["lo"] or v["hi"] != sd[v["name"]]["hi"]) for v in e["lm"]["vars"]):
                tightened += 1
    nontrivial = sum(1 for s in vb.stats if s[3] > 0 and s[4] > 0) + tightened
    samples = []
    for e in bevents:
        if e.get("out") == "ok" and len(samples) < 3 and e.get("maxsteps") == 2:
            samples.append({"id": e["id"], "model": e.get("srctext"), "max_steps": e["maxsteps"],
                            "box": {b["name"]: [b["lo"], b["hi"]] for b in e["box"]},
                            "reached_limit": e["limit"], "detected_infeasible": e["infeasible"],
                            "n_subexpressions": len(e["subs"])})
    o.level = "model_checking"
    o.coverage = {
        "states": vb.distinct + vk.distinct + sum(m.get("gen_states", 0) for m in meta.values()),
        "transitions": vb.generated + vk.generated + sum(m.get("gen_transitions", 0) for m in meta.values()),
        "traces_validated_against_impl": len(vb.stats) + len(vk.stats),
        "samples": samples or [{"note": "none"}],
        "evaluations": sum(s[2] + s[4] * s[5] for s in vb.stats) + sum(s[2] for s in vk.stats),
        "distinct_nontrivial": nontrivial,
        "rule": "analyzer events (hook H1) for ordered row sequences from spec/bounds/BoundsGen.tla x step limits {default,1,2,5}"
                " + seeded random models; compiled models of corpus K for the published ranges."
                " evaluations = assignments x (box membership + sub-expression intervals);"
                " non-trivial = analyzer event with a feasible sample and a non-empty box sample set, or compiled model whose published range was tightened",
        "exhaustive": False,
        "analyzer_events": len(bevents),
        "analyzer_events_limit_reached": sum(1 for e in bevents if e.get("limit")),
        "analyzer_events_infeasible_detected": sum(1 for e in bevents if e.get("infeasible")),
        "compiled_models": len(kevents),
        "compiled_models_with_tightened_range": tightened,
        "families": meta,
    }
    o.assumptions = [
        "bounds cross to TLC rounded outward to 1/1024 (violations below that margin are not visible); the model is exact",
        "continuous variables are sampled on a grid inside a window [-4,4] plus far points",
        "hook H1 calls the same analyze_with_options/apply_to_domain/bounds_of the linearizer uses",
    ]
    return o.finish()
