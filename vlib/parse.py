"""C09: expressions parse with the documented precedence and associativity.
GEN spec/parse/TokGen.tla, RUN real parser, VAL spec/parse/ParseTrace.tla (Pratt.tla)."""
import json
import os

from . import core

SPEC_DIR = os.path.join(core.SPEC, "parse")
KW = {"add": "+", "sub": "-", "mul": "*", "div": "/", "and": "and", "or": "or", "xor": "xor", "implies": "implies", "iff": "iff", "neg": "-", "not": "not"}
SYM = dict(KW, **{"and": "&&", "or": "||", "implies": "->", "iff": "<->", "not": "!"})
# identifiers that merely start with a keyword must stay identifiers
RENAME = {"a": "android", "b": "notx", "c": "iffy", "d": "inx"}
# names that start with a literal or another keyword (style 3)
RENAME3 = {"a": "trueish", "b": "falsey", "c": "orbit", "d": "maxim"}


def render(tokens, style):
    """style 0: keywords, spaces; 1: symbolic aliases, tight implicit products; 2, 3: keyword- / literal-prefixed identifiers"""
    out = []
    for i, t in enumerate(tokens):
        k = t["k"]
        if k in ("op", "un"):
            s = (SYM if style in (1, 4) else KW)[t["s"]]
        elif k == "id":
            s = RENAME[t["s"]] if style == 2 else RENAME3[t["s"]] if style == 3 else t["s"]
        else:
            s = t["s"]
        out.append(s)
    if style == 4:
        # compact: symbolic aliases and no blank anywhere it is not needed to keep two tokens apart
        # (two names / numbers / keywords next to each other); a binary minus then touches the digit after it
        text = ""
        for i, s_ in enumerate(out):
            if text and ((text[-1].isalnum() or text[-1] == "_") and (s_[0].isalnum() or s_[0] == "_")) and not (tokens[i - 1]["k"] == "num" and tokens[i]["k"] == "id"):
                text += " "
            text += s_
        return text
    if style == 1:
        text = ""
        for i, s in enumerate(out):
            prev = tokens[i - 1]["k"] if i else None
            tight = prev in ("num", "rp") and tokens[i]["k"] in ("id", "lp") or (prev == "lp") or tokens[i]["k"] == "rp" or prev == "un" and out[i - 1] in ("-", "!")
            text += ("" if (tight or not text) else " ") + s
        return text
    return " ".join(out)


def with_text(case, style):
    toks = case["tokens"]
    if style in (2, 3):
        ren = RENAME if style == 2 else RENAME3
        toks = [dict(t, s=ren[t["s"]]) if t["k"] == "id" else t for t in toks]
    names = sorted({t["s"] for t in toks if t["k"] == "id"}) or ["a"]
    expr = render(case["tokens"], style)
    text = f"min {expr}\ns.t.\n    {names[0]} >= 0\ndefine\n    {', '.join(names)} as IntegerRange(0, 9)"
    return {"id": f"{case['id']}s{style}", "tokens": toks, "text": text, "expr": expr}


def check(tier, seed, replay=None):
    prop = "C09"
    o = core.Outcome(prop, tier, seed)
    core.build_harness()
    meta = {}
    if replay:
        c = json.load(open(replay))
        cases = [{"id": c["id"], "tokens": c["tokens"], "text": c["text"], "expr": c.get("expr", "")}]
    else:
        raw = []
        plan = [("All5.cfg", 2500, None), ("UnPar.cfg", 700, None), ("Ops3.cfg", 2200, None)]
        for cfg, n, sim in plan:
            cs, g, d = core.gen_cases(SPEC_DIR, "TokGen.tla", cfg, "tok" + cfg[:-4], workers=8)
            for i, c in enumerate(cs):
                c["id"] = f"{cfg[:-4]}_{i}"
            meta[cfg[:-4]] = {"cases": len(cs), "gen_states": d, "gen_transitions": g}
            if tier == "quick":
                k = max(1, len(cs) // n)
                cs = cs[seed % k::k]
            raw += cs
        nsim = 40 if tier == "quick" else 1500
        cs, g, d = core.gen_cases(SPEC_DIR, "TokGen.tla", "Sim12.cfg", "tokSim12", workers=1,
                                  extra=["-simulate", f"num={nsim}", "-depth", "14", "-seed", str(seed)], cache_key=[nsim, seed])
        for i, c in enumerate(cs):
            c["id"] = f"Sim12_{seed}_{i}"
        meta["Sim12"] = {"cases": len(cs), "simulated_behaviours": nsim}
        if tier == "quick":
            cs = cs[:1500]
        raw += cs
        cases = []
        for i, c in enumerate(raw):
            styles = (0, 1, 2, 3, 4) if tier == "thorough" else ((i + seed) % 5,)
            for st in styles:
                cases.append(with_text(c, st))
    events = core.rv_parallel("parse", cases, prop, procs=8)
    cost = [6 ** len({t["s"] for t in e["tokens"] if t["k"] == "id"}) for e in events]
    v = core.validate(SPEC_DIR, "ParseTrace.tla", "ParseTrace.cfg", events, prop, prop, chunks=12, cost=cost)
    byid = {e["id"]: e for e in events}
    for r in v.rejects:
        ev = byid.get(r[2], {})
        o.violation(f"{r[3]}:{ev.get('expr')}", {k: ev.get(k) for k in ("id", "tokens", "text", "expr")},
                    f"{r[3]}: `{ev.get('expr')}` {r[5] if len(r) > 5 else ''} why={ev.get('why','')}")
    if v.skips:
        raise core.ToolError(f"TokGen produced {len(v.skips)} ill-formed strings, e.g. {v.skips[0]}")
    samples = [{"id": e["id"], "expr": e["expr"]} for e in events[::max(1, len(events) // 6)]][:6]
    o.level = "model_checking"
    o.coverage = {
        "states": v.distinct + sum(m.get("gen_states", 0) for m in meta.values()),
        "transitions": v.generated + sum(m.get("gen_transitions", 0) for m in meta.values()),
        "traces_validated_against_impl": len(v.stats),
        "samples": samples,
        "evaluations": sum(s[3] for s in v.stats),
        "distinct_nontrivial": sum(1 for s in v.stats if s[2] >= 5),
        "rule": "one event = one token string from spec/parse/TokGen.tla rendered in one of five spellings (keywords / symbolic aliases with tight implicit products / literal-prefixed identifiers /"
                " keyword-prefixed identifiers / compact: symbolic aliases without any blank that is not needed), parsed by the real front end and compared by value with Pratt!Parse at all assignments over {0,1,2,3,5,7};"
                " non-trivial = at least 5 tokens; quick: seeded stride sample, thorough: every string in all five spellings",
        "exhaustive": tier == "thorough" and not replay,
        "families": meta,
        "unverifiable_overflow_count": len(v.overflow_ids),
    }
    o.assumptions = ["value equality on the assignment grid {0,1,2,3,5,7}^n separates the groupings (checked by mutating the specification: iff made right-associative is rejected)"]
    return o.finish()
