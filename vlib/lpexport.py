"""C17: LP export denotes the same model.  spec/lpfmt/LpReader.tla reads the
token stream of to_lp_format (one token per step) and compares with the model."""
import copy
import json
import os
import random

from . import core, lpcases

SPEC_DIR = os.path.join(core.SPEC, "lpfmt")
MAGS = [1e-9, 1e9, 0.1, 2.5e-7, 123456789.0, 1.0 / 3.0, 0.5, 1e15]


def perturb(cases, seed):
    """Seeded input variations the generator machine does not enumerate: tiny /
    large / fractional magnitudes, user row names (also ones shaped like the
    generated c<i>), negative offsets, satisfy objectives."""
    rnd = random.Random(seed)
    out = []
    for c in cases:
        c = copy.deepcopy(c)
        r = rnd.random()
        if r < 0.35:
            for row in c["rows"]:
                for j in range(len(row["a"])):
                    if rnd.random() < 0.4 and row["a"][j] != 0:
                        row["a"][j] = {"f": row["a"][j] / c["den"] * rnd.choice(MAGS)}
                if rnd.random() < 0.3:
                    row["b"] = {"f": rnd.choice([-1, 1]) * rnd.choice(MAGS)}
            for j in range(len(c["obj"])):
                if rnd.random() < 0.3 and c["obj"][j] != 0:
                    c["obj"][j] = {"f": c["obj"][j] / c["den"] * rnd.choice(MAGS)}
        if rnd.random() < 0.3:
            c["off"] = rnd.choice([-3, -1, {"f": -0.75}, {"f": 1e-9}, 0])
        names = rnd.choice([None, None, ["c1", "c2", "c3"], ["c2", "", "c1"], ["lim", "lim", ""], ["", "c1", ""], ["obj", "lim", "x"]])
        if names:
            for i, row in enumerate(c["rows"]):
                row["name"] = names[i % 3]
        if rnd.random() < 0.1:
            c["sense"] = "sat"
        out.append(c)
    return out


def check(tier, seed, replay=None):
    prop = "C17"
    o = core.Outcome(prop, tier, seed)
    core.build_harness()
    meta = {}
    if replay:
        cases = [json.load(open(replay))]
    else:
        cases = []
        plan = [("Mixed1.cfg", 500, None), ("Mixed2.cfg", 700, None),
                ("SimMixed3.cfg", 500 if tier == "quick" else 8000, (3 if tier == "quick" else 40, 9))]
        if tier == "thorough":
            plan = [(c, n * 80 if s is None else n * 4, (s[0] * 4, s[1]) if s else s) for c, n, s in plan]
        for cfg, n, sim in plan:
            cs, m = lpcases.family(cfg, "quick", seed, n, sim)
            meta[cfg[:-4]] = m
            cases += cs
        cases = cases + perturb(cases, seed)
        # variables called like words of the LP format (valid names of the modelling language)
        Bd = lambda n: {"inf": 0, "n": n, "d": 1}
        var = lambda n, k="nnreal": {"name": n, "kind": k, "lo": Bd(0), "hi": ({"inf": 1, "n": 0, "d": 1} if k == "nnreal" else Bd(1))}
        rw = lambda a, cmp, b: {"a": a, "cmp": cmp, "b": b, "name": ""}
        cases += [
            {"id": "h_keyword_st_end", "sense": "max", "obj": [1, 2], "off": 0, "den": 1, "vars": [var("end"), var("st")], "rows": [rw([1, 1], "le", 4)]},
            {"id": "h_keyword_free_bin", "sense": "min", "obj": [1, 1], "off": 0, "den": 1, "vars": [var("bin"), var("free")], "rows": [rw([1, 2], "ge", 2)]},
            {"id": "h_keyword_subject_to", "sense": "max", "obj": [1, 1], "off": 0, "den": 1, "vars": [var("subject", "bool"), var("to", "bool")], "rows": [rw([1, 1], "le", 1)]},
        ]
        for i, c in enumerate(cases):
            c["id"] = f"{c['id']}#{i}"
    events = core.rv_parallel("lpexport", cases, prop, procs=8)
    bycase = {c["id"]: c for c in cases}
    cost = [len(e.get("tokens", [])) + 5 for e in events]
    v = core.validate(SPEC_DIR, "LpReader.tla", "LpReader.cfg", events, prop, prop, chunks=12, cost=cost)
    byid = {e["id"]: e for e in events}
    for r in v.rejects:
        ev = byid.get(r[2], {})
        case = bycase.get(r[2], {})
        named = sorted({row["name"] for row in case.get("rows", []) if row["name"]})
        sig = f"{r[3]}" + (f" [user row names {named}]" if "name" in r[3] and not r[3].startswith("KNOWN-") else "")
        o.violation(sig, case, f"{r[3]}: {r[4] if len(r) > 4 else ''}\n{ev.get('text','')}")
    toks = sum(s[2] for s in v.stats)
    samples = [{"id": e["id"], "lp_text": e["text"]} for e in events[:400:150] if e.get("out") == "ok"]
    o.level = "model_checking"
    o.coverage = {
        "states": v.distinct + sum(m.get("gen_states", 0) for m in meta.values()),
        "transitions": v.generated + sum(m.get("gen_transitions", 0) for m in meta.values()),
        "traces_validated_against_impl": len(v.stats) + len(v.rejects),
        "samples": samples or [{"note": "none"}],
        "evaluations": len(events),
        "distinct_nontrivial": sum(1 for s in v.stats if s[3] >= 1),
        "rule": "one behaviour = one exported text read token by token by LpReader.tla and compared with the model;"
                " LpGen families + seeded perturbations (tiny/large/fractional magnitudes, user row names incl. c<i>, offsets, satisfy);"
                " non-trivial = export with at least one row",
        "exhaustive": False,
        "tokens_read": toks,
        "families": meta,
        "unverifiable_overflow": v.overflow_ids[:10],
        "unverifiable_overflow_count": len(v.overflow_ids),
    }
    o.assumptions = ["tokens are split on white space and numeric tokens parsed by Rust's f64 parser in the harness; numbers are compared by sign and bit pattern"]
    return o.finish()
