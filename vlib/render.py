"""Rendering of case trees to ROOC source text (input construction for the text
front end).  Full parenthesisation, so the meaning does not depend on the
precedence table under test elsewhere; `spell` chooses how constants are written."""

KW = {"add": "+", "sub": "-", "mul": "*", "div": "/"}
LOGIC = {"xor": "xor", "implies": "implies", "iff": "iff", "b_and": "and", "b_or": "or", "b_xor": "xor", "b_implies": "implies", "b_iff": "iff"}


def fmt_num(n, d):
    if d == 1:
        return str(n) if n >= 0 else f"(0 - {-n})"
    v = n / d
    s = repr(abs(v))
    return s if v >= 0 else f"(0 - {s})"


def num_plain(n, d):
    v = n / d
    s = str(int(v)) if v == int(v) else repr(v)
    return s


def dec(v):
    """A float as a plain decimal literal (the language has no exponent notation): the shortest
    decimal that reads back as the same float, written positionally."""
    from decimal import Decimal
    s = format(Decimal(repr(float(v))), "f")
    return s


def expr(t, spell=None, logic=False):
    """spell: None = plain; else a function (n, d) -> text for constants.
    logic=True: the tree sits in a logic operand position, where the text language wants
    Boolean literals (true / false) instead of the numbers 1 / 0."""
    op = t["op"]
    if op == "num":
        if "f" in t:
            v = t["f"]
            return dec(v) if v >= 0 else f"(-{dec(-v)})"
        if t["d"] == 0:
            return "Infinity" if t["n"] > 0 else "MinusInfinity" if t["n"] < 0 else "(Infinity - Infinity)"
        if logic and t["d"] == 1 and t["n"] in (0, 1):
            return "true" if t["n"] == 1 else "false"
        if spell:
            return spell(t["n"], t["d"])
        return fmt_num(t["n"], t["d"])
    if op == "var":
        return t["name"]
    if op in KW:
        return f"({expr(t['a'], spell)} {KW[op]} {expr(t['b'], spell)})"
    if op in LOGIC:
        return f"({expr(t['a'], spell, True)} {LOGIC[op]} {expr(t['b'], spell, True)})"
    if op == "neg":
        return f"(-({expr(t['a'], spell)}))"
    if op in ("not", "u_not"):
        return f"(not ({expr(t['a'], spell, True)}))"
    if op == "abs":
        return f"abs{{ {expr(t['a'], spell)} }}"
    if op in ("min", "max"):
        return f"{op}{{ {', '.join(expr(a, spell) for a in t['args'])} }}"
    if op in ("and", "or"):
        if not t["args"]:
            return "true" if op == "and" else "false"
        return "(" + f" {op} ".join(expr(a, spell, True) for a in t["args"]) + ")"
    raise ValueError(op)


def bound(b):
    if b["inf"] > 0:
        return "Infinity"
    if b["inf"] < 0:
        return "MinusInfinity"
    v = b["n"] / b["d"]
    return str(int(v)) if v == int(v) else repr(v)


def decl(d):
    k = d["kind"]
    if k == "bool":
        return f"{d['name']} as Boolean"
    if k == "int":
        return f"{d['name']} as IntegerRange({bound(d['lo'])}, {bound(d['hi'])})"
    name = "Real" if k == "real" else "NonNegativeReal"
    if d["lo"]["inf"] and d["hi"]["inf"] and k == "real":
        return f"{d['name']} as Real"
    if k == "nnreal" and d["hi"]["inf"] and d["lo"]["n"] == 0:
        return f"{d['name']} as NonNegativeReal"
    return f"{d['name']} as {name}({bound(d['lo'])}, {bound(d['hi'])})"


CMP = {"le": "<=", "ge": ">=", "eq": "=", "lt": "<", "gt": ">"}


def model_text(case, spell=None, consts=None):
    """case: {sense, obj, cons[{lhs,cmp,rhs,assert,name}], dom[...]}"""
    lines = []
    if case["sense"] == "sat":
        lines.append("solve")
    else:
        lines.append(f"{case['sense']} {expr(case['obj'], spell)}")
    lines.append("s.t.")
    for c in case["cons"]:
        nm = f"{c['name']}: " if c.get("name") else ""
        if c.get("assert"):
            lines.append(f"    {nm}{expr(c['lhs'], spell, True)}")
        else:
            lines.append(f"    {nm}{expr(c['lhs'], spell)} {CMP[c['cmp']]} {expr(c['rhs'], spell)}")
    if not case["cons"]:
        lines.append("    0 <= 1")
    if consts:
        lines.append("where")
        for k, v in consts.items():
            lines.append(f"    let {k} = {v}")
    lines.append("define")
    for d in case["dom"]:
        lines.append("    " + decl(d))
    return "\n".join(lines)


# ---- minimal-parenthesis rendering by the documented precedence table --------------
# 7 prefix (- not), 6 * /, 5 + -, 4 and, 3 xor, 2 or, 1 implies (right) / iff (left) sharing a level
PREC = {"mul": 6, "div": 6, "add": 5, "sub": 5, "b_and": 4, "b_xor": 3, "xor": 3, "b_or": 2,
        "implies": 1, "b_implies": 1, "iff": 1, "b_iff": 1}
TXT = {"mul": "*", "div": "/", "add": "+", "sub": "-", "b_and": "and", "b_xor": "xor", "xor": "xor", "b_or": "or",
       "implies": "implies", "b_implies": "implies", "iff": "iff", "b_iff": "iff"}
SYM = dict(TXT, **{"b_and": "&&", "b_or": "||", "implies": "->", "b_implies": "->", "iff": "<->", "b_iff": "<->"})
RIGHT = {"implies", "b_implies"}


def _prec(t):
    op = t["op"]
    if op in PREC:
        return PREC[op]
    if op in ("and", "or") and len(t["args"]) >= 2:
        return 4 if op == "and" else 2
    if op in ("neg", "not", "u_not"):
        return 7
    return 9          # atoms, blocks


def expr_min(t, style=0, logic=False):
    """Text of tree t with only the parentheses the documented grammar needs.
    style 0: keywords; 1: symbolic aliases and implicit multiplication where the shape allows."""
    words = SYM if style == 1 else TXT
    op = t["op"]
    if op == "num":
        if logic and t["d"] == 1 and t["n"] in (0, 1):
            return "true" if t["n"] == 1 else "false"
        v = t["n"] / t["d"]
        s = str(int(v)) if v == int(v) else repr(abs(v))
        if v < 0:
            return "-" + (str(int(-v)) if v == int(v) else repr(-v))
        return s
    if op == "var":
        return t["name"]
    if op == "abs":
        return f"abs {{ {expr_min(t['a'], style)} }}"
    if op in ("min", "max"):
        return f"{op} {{ {', '.join(expr_min(a, style) for a in t['args'])} }}"

    def child(c, parent_prec, right, parent_right_assoc, lg):
        s = expr_min(c, style, lg)
        p = _prec(c)
        is_neg_num = c["op"] == "num" and c["n"] < 0
        need = p < parent_prec or (p == parent_prec and (right != parent_right_assoc or (c["op"] in RIGHT) != parent_right_assoc))
        # a negative literal reads as a prefix minus: fine as an operand (prefix binds tightest)
        return f"({s})" if need and not is_neg_num else s

    if op in ("and", "or"):
        args = t["args"]
        if not args:
            return "true" if op == "and" else "false"
        if len(args) == 1:
            return expr_min(args[0], style, True)
        pp = 4 if op == "and" else 2
        w = ("&&" if op == "and" else "||") if style == 1 else op
        parts = [child(a, pp, i > 0, False, True) for i, a in enumerate(args)]
        return f" {w} ".join(parts)
    if op in PREC:
        pp = PREC[op]
        lg = pp <= 4
        ra = op in RIGHT
        a = child(t["a"], pp, False, ra, lg)
        b = child(t["b"], pp, True, ra, lg)
        if style == 1 and op == "mul" and t["a"]["op"] == "num" and t["a"]["n"] >= 0 and t["b"]["op"] == "var":
            return f"{a}{b}"                      # implicit multiplication 2x
        if style == 1 and op == "mul" and t["a"]["op"] == "num" and t["a"]["n"] >= 0 and t["b"]["op"] in ("add", "sub"):
            return f"{a}({expr_min(t['b'], style)})"  # 2(x + 1)
        return f"{a} {words[op]} {b}"
    if op == "neg":
        c = t["a"]
        s = expr_min(c, style)
        return f"-({s})" if _prec(c) < 9 or (c["op"] == "num" and c["n"] < 0) else f"-{s}"
    if op in ("not", "u_not"):
        c = t["a"]
        s = expr_min(c, style, True)
        w = "!" if style == 1 else "not "
        return f"{w}({s})" if _prec(c) < 9 else f"{w}{s}"
    raise ValueError(op)


def program_min(case, style=0, named=False, where=False):
    """Full source text with minimal parentheses; optional constraint names and where-constants."""
    lines = ["solve" if case["sense"] == "sat" else f"{case['sense']} {expr_min(case['obj'], style)}", "s.t."]
    for i, c in enumerate(case["cons"]):
        nm = f"c{i + 1}: " if named else ""
        if c.get("assert"):
            lines.append(f"    {nm}{expr_min(c['lhs'], style, True)}")
        else:
            lines.append(f"    {nm}{expr_min(c['lhs'], style)} {CMP[c['cmp']]} {expr_min(c['rhs'], style)}")
    if not case["cons"]:
        lines.append("    0 <= 1")
    lines.append("define")
    for d in case["dom"]:
        lines.append("    " + decl(d))
    return "\n".join(lines)
