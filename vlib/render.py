"""Rendering of case trees to ROOC source text (input construction for the text
front end).  Full parenthesisation, so the meaning does not depend on the
precedence table under test elsewhere; `spell` chooses how constants are written."""

KW = {"add": "+", "sub": "-", "mul": "*", "div": "/"}
LOGIC = {"xor": "xor", "implies": "implies", "iff": "iff", "b_and": "and", "b_or": "or", "b_xor": "xor", "b_implies": "implies", "b_iff": "iff"}


def fmt_num(n, d):
    if d == 1:
        return str(n) if n >= 0 else f"(0 - {-n})"
    v = n / d
    s = repr(abs(v))
    return s if v >= 0 else f"(0 - {s})"


def num_plain(n, d):
    v = n / d
    s = str(int(v)) if v == int(v) else repr(v)
    return s


def expr(t, spell=None, logic=False):
    """spell: None = plain; else a function (n, d) -> text for constants.
    logic=True: the tree sits in a logic operand position, where the text language wants
    Boolean literals (true / false) instead of the numbers 1 / 0."""
    op = t["op"]
    if op == "num":
        if "f" in t:
            v = t["f"]
            return repr(v) if v >= 0 else f"(-{repr(-v)})"
        if t["d"] == 0:
            return "Infinity" if t["n"] > 0 else "MinusInfinity" if t["n"] < 0 else "(Infinity - Infinity)"
        if logic and t["d"] == 1 and t["n"] in (0, 1):
            return "true" if t["n"] == 1 else "false"
        if spell:
            return spell(t["n"], t["d"])
        return fmt_num(t["n"], t["d"])
    if op == "var":
        return t["name"]
    if op in KW:
        return f"({expr(t['a'], spell)} {KW[op]} {expr(t['b'], spell)})"
    if op in LOGIC:
        return f"({expr(t['a'], spell, True)} {LOGIC[op]} {expr(t['b'], spell, True)})"
    if op == "neg":
        return f"(-({expr(t['a'], spell)}))"
    if op in ("not", "u_not"):
        return f"(not ({expr(t['a'], spell, True)}))"
    if op == "abs":
        return f"abs{{ {expr(t['a'], spell)} }}"
    if op in ("min", "max"):
        return f"{op}{{ {', '.join(expr(a, spell) for a in t['args'])} }}"
    if op in ("and", "or"):
        if not t["args"]:
            return "true" if op == "and" else "false"
        return "(" + f" {op} ".join(expr(a, spell, True) for a in t["args"]) + ")"
    raise ValueError(op)


def bound(b):
    if b["inf"] > 0:
        return "Infinity"
    if b["inf"] < 0:
        return "MinusInfinity"
    v = b["n"] / b["d"]
    return str(int(v)) if v == int(v) else repr(v)


def decl(d):
    k = d["kind"]
    if k == "bool":
        return f"{d['name']} as Boolean"
    if k == "int":
        return f"{d['name']} as IntegerRange({bound(d['lo'])}, {bound(d['hi'])})"
    name = "Real" if k == "real" else "NonNegativeReal"
    if d["lo"]["inf"] and d["hi"]["inf"] and k == "real":
        return f"{d['name']} as Real"
    if k == "nnreal" and d["hi"]["inf"] and d["lo"]["n"] == 0:
        return f"{d['name']} as NonNegativeReal"
    return f"{d['name']} as {name}({bound(d['lo'])}, {bound(d['hi'])})"


CMP = {"le": "<=", "ge": ">=", "eq": "=", "lt": "<", "gt": ">"}


def model_text(case, spell=None, consts=None):
    """case: {sense, obj, cons[{lhs,cmp,rhs,assert,name}], dom[...]}"""
    lines = []
    if case["sense"] == "sat":
        lines.append("solve")
    else:
        lines.append(f"{case['sense']} {expr(case['obj'], spell)}")
    lines.append("s.t.")
    for c in case["cons"]:
        nm = f"{c['name']}: " if c.get("name") else ""
        if c.get("assert"):
            lines.append(f"    {nm}{expr(c['lhs'], spell, True)}")
        else:
            lines.append(f"    {nm}{expr(c['lhs'], spell)} {CMP[c['cmp']]} {expr(c['rhs'], spell)}")
    if not case["cons"]:
        lines.append("    0 <= 1")
    if consts:
        lines.append("where")
        for k, v in consts.items():
            lines.append(f"    let {k} = {v}")
    lines.append("define")
    for d in case["dom"]:
        lines.append("    " + decl(d))
    return "\n".join(lines)
