"""C15: limits and tolerances never turn into wrong answers.
Call(model, gap, limit) -> Return; allowed returns stated in SolveTrace!LimitsProblems."""
import copy
import json
import os

from . import core, lpcases, solve

SPEC_DIR = solve.SPEC_DIR
LIMITS = [-1, 0, 1, 1_000, 10_000, 50_000, 100_000, 300_000, 1_000_000, 5_000_000, 2_000_000_000]   # ns; -1 = none; 2e9 stands for Duration::MAX
GAPS = [("none", 0, 1), ("num", 0, 1), ("num", 1, 1000), ("num", 1, 20), ("num", 1, 5), ("num", 1, 2), ("num", 10, 1), ("num", -1, 1), ("nan", 0, 1), ("inf", 0, 1), ("-inf", 0, 1)]


def opts_for(i, seed, builder_every=4):
    out = []
    k = 0
    for lim in LIMITS:
        for g in GAPS:
            # not the full product for every model: valid gaps x all limits, invalid gaps x two limits
            if g[0] in ("nan", "inf", "-inf") or g[1] < 0:
                if lim not in (-1, 0):
                    continue
            elif (k + i + seed) % 3 != 0 and lim not in (-1, 0):
                k += 1
                continue
            k += 1
            out.append({"limit": lim, "limit_ns": (None if lim < 0 else lim), "gapk": g[0], "gapn": g[1], "gapd": g[2],
                        "gap": (g[0] if g[0] != "num" else {"n": g[1], "d": g[2]}), "builder": (k % builder_every == 0)})
    return out


def check(tier, seed, replay=None):
    prop = "C15"
    o = core.Outcome(prop, tier, seed)
    core.build_harness()
    meta = {}
    if replay:
        c = json.load(open(replay))
        opt = c.pop("opt", None)
        if opt:
            opt = dict(opt, limit_ns=(None if opt["limit"] < 0 else opt["limit"]),
                       gap=(opt["gapk"] if opt["gapk"] != "num" else {"n": opt["gapn"], "d": opt["gapd"]}))
        c.pop("optraw", None)
        for k in ("entry", "out", "sol", "err"):
            c.pop(k, None)
        c["id"] = c["id"].split("/")[0]
        c["opts"] = [opt] * 5 if opt else opts_for(0, seed)
        cases = [c]
    else:
        cases = []
        plan = [("Knap10.cfg", 6 if tier == "quick" else 150, (1 if tier == "quick" else 6, 12)), ("Knap14.cfg", 4 if tier == "quick" else 100, (1 if tier == "quick" else 6, 16)),
                ("Knap12i.cfg", 3 if tier == "quick" else 80, (1 if tier == "quick" else 6, 14)),
                ("Mixed2.cfg", 40 if tier == "quick" else 3000, None)]
        for cfg, n, sim in plan:
            cs, m = lpcases.family(cfg, "quick", seed, n, sim, module=("KnapGen.tla" if cfg.startswith("Knap") else "LpGen.tla"))
            meta[cfg[:-4]] = m
            cases += cs[:n]
        # the same models again with a constant offset that moves the optimum close to zero: a relative gap
        # is a statement about the user's objective, offset included
        shifted = []
        for c in cases:
            big = sum(abs(x) for x in c["obj"])
            if big and c["sense"] != "sat":
                s_ = copy.deepcopy(c)
                s_["id"] = c["id"] + "_off"
                s_["off"] = (-1 if c["sense"] == "max" else 1) * int(0.8 * big)
                shifted.append(s_)
        cases += shifted
        # ... and the shifted knapsacks again in units of 1/256: the visible optimum lies inside (-1, 1), where a gap test
        # with a floor of 1 under the denominator (gap * max(|value|, 1)) is an absolute test in disguise
        small = []
        for c in shifted:
            if c["id"].startswith("Knap"):
                s_ = copy.deepcopy(c)
                s_["id"] = c["id"] + "s"
                s_["den"] = c.get("den", 1) * 256
                for r in s_["rows"]:          # the rows keep their meaning: a.x <= b is scale-free
                    r["a"] = [a * 256 for a in r["a"]]
                    r["b"] = r["b"] * 256
                small.append(s_)
        meta["shifted_small"] = {"cases": len(small)}
        cases += small
        # the knapsack models turned into covering models (y = 1 - x: minimise the cost of what is left out,
        # the weight left out must reach the excess), with negative constants that bring the visible minimum
        # towards zero from above: the gap test of a minimisation has the bound BELOW the incumbent
        covering = []
        for c in cases:
            if c["id"].startswith("Knap") and not c["id"].endswith("_off") and not c["id"].endswith("_offs") and c["sense"] == "max" and all(v["kind"] == "bool" for v in c["vars"]) \
                    and all(r["cmp"] == "le" for r in c["rows"]):
                big = sum(abs(x) for x in c["obj"])
                for k, frac in enumerate((0.3, 0.5, 0.7)):
                    m_ = copy.deepcopy(c)
                    m_["id"] = f"{c['id']}_cov{k}"
                    m_["sense"] = "min"
                    m_["off"] = -int(frac * big)
                    for r in m_["rows"]:
                        r["cmp"] = "ge"
                        r["b"] = sum(r["a"]) - r["b"]
                    covering.append(m_)
                # ... and as the minimisation of the negated value with a POSITIVE constant: a negative objective
                # that the constant brings towards zero from below
                for k, frac in enumerate((0.4, 0.7, 1.0)):
                    m_ = copy.deepcopy(c)
                    m_["id"] = f"{c['id']}_neg{k}"
                    m_["sense"] = "min"
                    m_["obj"] = [-x for x in c["obj"]]
                    m_["off"] = int(frac * big)
                    covering.append(m_)
        meta["covering"] = {"cases": len(covering)}
        cases += covering
        for i, c in enumerate(cases):
            c["opts"] = opts_for(i, seed)
    # timing-sensitive: run sequentially on few processes so limits fire at varied points
    events = core.rv_parallel("limits", cases, prop, procs=4)
    for e in events:
        e["optraw"] = json.dumps(e["opt"])
        e["opt"] = {k: e["opt"][k] for k in ("limit", "gapk", "gapn", "gapd", "builder")}
    cost = [1 + 2 ** sum(1 for v in e["vars"] if v["kind"] in ("bool", "int")) for e in events]
    v = core.validate(SPEC_DIR, "SolveTrace.tla", "SolveTrace.cfg", events, prop, prop, chunks=14, cost=cost)
    byid = {e["id"]: e for e in events}
    for r in v.rejects:
        if r[1] != prop:
            continue
        ev = byid.get(r[2], {})
        case = {k: ev.get(k) for k in ("id", "sense", "obj", "off", "den", "vars", "rows", "opt")}
        lim = ev.get("opt", {}).get("limit", -1)
        sig = f"{r[3]} [limit={'none' if lim < 0 else 'set'} gap={ev.get('opt', {}).get('gapk')}]"
        o.violation(sig, case, f"{r[3]} limit_ns={lim} gap={ev.get('opt', {}).get('gapk')}:{ev.get('opt', {}).get('gapn')}/{ev.get('opt', {}).get('gapd')} builder={ev.get('opt', {}).get('builder')} got={json.dumps(ev.get('sol', ev.get('err')))[:300]}")
    kinds = {}
    for s in v.stats:
        k = f"{s[2]}:{s[3]}"
        kinds[k] = kinds.get(k, 0) + 1
    samples = []
    for e in events:
        if len(samples) < 4 and e["opt"]["limit"] in (0, 50_000) and e["opt"]["gapk"] == "num":
            samples.append({"id": e["id"], "n_vars": len(e["vars"]), "limit_ns": e["opt"]["limit"], "gap": [e["opt"]["gapn"], e["opt"]["gapd"]],
                            "out": e["out"], "status_or_error": (e.get("sol", {}).get("status") if e["out"] == "solution" else e.get("err", {}).get("kind"))})
    o.level = "exploration"
    o.coverage = {
        "evaluations": len(events),
        "distinct_nontrivial": sum(1 for e in events if e["opt"]["limit"] >= 0 or e["opt"]["gapk"] != "none"),
        "rule": "one event = one call of solve_milp_lp_problem_with (or the builder's Microlp) on a generated MILP with a time limit and a MIP gap;"
                " knapsack models from spec/lp/KnapGen.tla (TLC simulation) and small LpGen MILPs; the exact optimum comes from 2^n enumeration in TLC;"
                " non-trivial = call with a limit or an explicit gap",
        "samples": samples or [{"note": "none"}],
        "returns_by_kind": kinds,
        "models": len(cases),
        "states": v.distinct,
        "transitions": v.generated,
        "families": meta,
        "unverifiable_overflow": v.overflow_ids[:10],
        "unverifiable_overflow_count": len(v.overflow_ids),
    }
    o.assumptions = ["the point at which a wall-clock limit fires cannot be chosen, only sampled; every observed return must be allowed",
                     "gap acceptance uses max(|value|,|optimum|) as denominator (superset of microlp's definition)"]
    return o.finish()
