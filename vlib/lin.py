"""Corpus K (DESIGN 4): Linearizer::linearize on generated models, judged by
spec/lin/LinTrace.tla.  Serves C01, C02, C07(a) and C08."""
import hashlib
import glob
import copy
import json
import os

from . import core

SPEC_DIR = os.path.join(core.SPEC, "lin")
FAMILIES = "ABCDEFIJ"


def src_hash(ev):
    h = hashlib.sha256(json.dumps([ev.get("sense"), ev.get("obj"), ev.get("cons"), ev.get("sdom")],
                                  sort_keys=True).encode()).hexdigest()[:12]
    return h


def n_samples(d, g):
    W = 4
    if d["kind"] == "bool":
        return 2
    lo, hi = d["lo"], d["hi"]
    if d["kind"] == "int":
        return max(1, min(hi["n"] + 1, W + 1) - max(lo["n"] - 1, -W - 1) + 1)
    a = -W * g if lo["inf"] else max(-W * g, (lo["n"] * g) // lo["d"] - 1)
    b = W * g if hi["inf"] else min(W * g, -((-hi["n"] * g) // hi["d"]) + 1)
    return max(1, b - a + 1) + (2 if lo["inf"] else 0) + (2 if hi["inf"] else 0)


def annotate(ev, tier):
    """Choose the grid denominator per event (input selection) and estimate cost."""
    if ev.get("out") != "ok" or not ev.get("lm") or not isinstance(ev["lm"].get("vars"), list):
        ev["g"] = 1          # (not compiled, or compiled with numbers outside the exact range: nothing to sample)
        return 1
    used = [d for d in ev["sdom"] if d["used"]]
    budget = 1500 if tier == "quick" else 12000
    g = 4 if tier == "thorough" else 2
    while True:
        n = 1
        for d in used:
            n *= n_samples(d, g)
        if n <= budget or g == 1:
            break
        g //= 2
    ev["g"] = g
    nb = sum(1 for v in ev["lm"]["vars"] if v["aux"] and v["kind"] == "bool")
    nc = sum(1 for v in ev["lm"]["vars"] if v["aux"] and v["kind"] != "bool")
    return n * (2 ** min(nb, 10)) * (1 + nc * nc) * (1 + len(ev["lm"]["rows"])) // 8 + 1


def gen_all(tier, seed, per_family_quick=300):
    """GEN: the four exhaustive families; quick keeps a seeded stride sample."""
    out = []
    meta = {}
    for f in FAMILIES:
        cases, generated, distinct = core.gen_cases(SPEC_DIR, "ModelGen.tla", f"Gen{f}.cfg", f"gen{f}")
        meta[f] = {"cases": len(cases), "gen_states": distinct, "gen_transitions": generated}
        for i, c in enumerate(cases):
            c["id"] = f"{f}{i}"
        if tier == "quick":
            k = max(1, len(cases) // per_family_quick)
            cases = cases[seed % k::k]
        out += cases
    # source models of defects found earlier (fixed in /repo): always part of the corpus
    reg = [json.load(open(f)) for f in sorted(glob.glob(os.path.join(SPEC_DIR, "regress", "*.json")))]
    meta["regress"] = {"cases": len(reg)}
    out += reg
    return out, meta


def run_corpus(tier, seed, props, tag, n_random=None, extra_cases=None, recase=False):
    core.build_harness()
    cases, meta = gen_all(tier, seed)
    if extra_cases:
        cases += extra_cases
    if recase:
        # every sixth model with two or more variables again under names whose byte order and case-insensitive order
        # differ (the variable list of a compiled model is sorted by the plain string order, capitals first)
        pool = ["a", "B", "Zeta", "xA", "x_1", "b", "C", "Xb"]
        def ren(t, m):
            if isinstance(t, dict):
                return {k: (m.get(v, v) if k == "name" and t.get("op") == "var" else ren(v, m)) for k, v in t.items()}
            if isinstance(t, list):
                return [ren(x, m) for x in t]
            return t
        more = []
        for i, c in enumerate(cases):
            names = [d_["name"] for d_ in c.get("dom", [])]
            if i % 6 == seed % 6 and 2 <= len(names) <= len(pool) and not any(n.startswith("$") for n in names):
                m = dict(zip(names, pool[i % 3:] + pool[:i % 3]))
                c2 = ren(copy.deepcopy(c), m)
                c2["dom"] = [dict(d_, name=m[d_["name"]]) for d_ in c2["dom"]]
                c2["id"] = c["id"] + "_case"
                more.append(c2)
        cases += more
    d = core.rundir(tag)
    cpath = os.path.join(d, "cases.ndjson")
    core.write_ndjson(cpath, cases)
    if n_random is None:
        n_random = 400 if tier == "quick" else 6000
    events = core.rv(["lin", "--cases", cpath, "--random", str(n_random), "--seed", str(seed),
                      "--depth", "3" if tier == "thorough" else "2"])
    costs = [annotate(e, tier) for e in events]
    v = core.validate(SPEC_DIR, "LinTrace.tla", "LinTrace.cfg", events, props + ",STA", tag,
                      chunks=12, cost=costs)
    return events, v, meta


def replay_events(path):
    """Re-run stored cases (replay files hold the source model) against the current tree."""
    core.build_harness()
    ev = json.load(open(path))
    case = {"id": ev.get("id", "replay"), "sense": ev["sense"], "obj": ev["obj"],
            "cons": ev["cons"], "dom": [{k: d[k] for k in ("name", "kind", "lo", "hi")} for d in ev["sdom"]]}
    d = core.rundir("replay")
    cpath = os.path.join(d, "cases.ndjson")
    core.write_ndjson(cpath, [case])
    return core.rv(["lin", "--cases", cpath])


def name_runs(o, tier, seed, only=None):
    """The names of compiled rows: every program of NameGen.tla (up to three constraints that compile to none, one
    or two rows, under names that collide with each other and with generated suffixes; longer lists by simulation),
    judged by NameTrace.tla."""
    meta = {}
    if only:
        cases = [only]
    else:
        cases, g, d = core.gen_cases(SPEC_DIR, "NameGen.tla", "NameGen.cfg", "namegen", workers=4)
        meta["names"] = {"cases": len(cases), "gen_states": d, "gen_transitions": g}
        nsim = 60 if tier == "quick" else 3000
        more, g2, d2 = core.gen_cases(SPEC_DIR, "NameGen.tla", "NameSim4.cfg", "namesim", workers=1,
                                      extra=["-simulate", f"num={nsim}", "-depth", "7", "-seed", str(seed)], cache_key=[nsim, seed])
        meta["names:longer"] = {"cases": len(more), "simulated_behaviours": nsim}
        if tier == "quick":
            k = max(1, len(cases) // 1200)
            cases = cases[seed % k::k]
        cases = cases + more
        for i, c in enumerate(cases):
            c["id"] = f"names{i}"
    events = core.rv_parallel("rownames", cases, "C08-names", procs=6)
    v = core.validate(SPEC_DIR, "NameTrace.tla", "NameTrace.cfg", events, "C08", "C08-names", chunks=6)
    byid = {e["id"]: e for e in events}
    for r in v.rejects:
        ev = byid.get(r[2], {})
        o.violation(f"names:{r[3]}:{ev.get('text')}", {k: ev.get(k) for k in ("id", "text", "cons", "rownames")},
                    f"{r[3]}\n{ev.get('text')}\n--- compiled row names: {ev.get('rownames')}")
    meta["names:validated"] = {"cases": len(v.stats), "with_generated_suffixes": sum(1 for s_ in v.stats if s_[4] > 0)}
    return meta


def check(prop, tier, seed, replay=None):
    o = core.Outcome(prop, tier, seed)
    if replay and prop == "C08" and "rownames" in json.load(open(replay)):
        core.build_harness()
        events, meta = [], name_runs(o, tier, seed, json.load(open(replay)))
        v = core.Val()
    elif replay:
        events = replay_events(replay)
        for e in events:
            annotate(e, "thorough")
        v = core.validate(SPEC_DIR, "LinTrace.tla", "LinTrace.cfg", events, prop + ",STA", prop + "-replay", chunks=1)
        meta = {}
    else:
        events, v, meta = run_corpus(tier, seed, prop, prop, recase=(prop == "C08"))
    byid = {e["id"]: e for e in events}
    for r in v.rejects:
        if r[1] != prop:
            continue
        ev = byid.get(r[2], {})
        sig = f"{r[3]}:{src_hash(ev)}"
        o.violation(sig, ev, f"{r[3]} fails for model [{ev.get('srctext','?')}] at {r[4] if len(r) > 4 else ''}")
    for e in events:
        if e.get("out") == "panic":
            o.violation(f"panic:{src_hash(e)}", e, f"Linearizer panicked: {e.get('why')}")
    names_meta = {}
    if prop == "C08" and not replay:
        names_meta = name_runs(o, tier, seed)
        meta.update(names_meta)
    stats = {s[1]: s for s in v.stats}
    nontrivial = 0
    if prop == "C08":
        for e in events:
            sh = e.get("shape")
            if e.get("out") == "err" or (sh and (len(sh["names"]) > sum(1 for d in e["sdom"] if d["used"])
                                                 or any(r["name"] for r in sh["rownames"]))):
                nontrivial += 1
    for s in (v.stats if prop != "C08" else []):
        _, _id, n_env, n_feas, nb, nc = s[:6]
        if prop in ("C01", "C07"):
            nontrivial += 1 if (0 < n_feas < n_env and (nb + nc > 0 or prop == "C07")) else 0
        else:
            ev = byid.get(_id, {})
            nontrivial += 1 if (n_feas > 0 and ev.get("sense") in ("min", "max") and nb + nc > 0) else 0
    outs = {}
    for e in events:
        k = e.get("out") if e.get("out") != "err" else "err:" + e["err"]["kind"]
        outs[k] = outs.get(k, 0) + 1
    samples = []
    for e in events:
        if e.get("out") == "ok" and e["id"] in stats and len(samples) < 4 and any(x["aux"] for x in e["lm"]["vars"]):
            s = stats[e["id"]]
            samples.append({"id": e["id"], "source": e.get("srctext"), "linear": e.get("text"),
                            "assignments": s[2], "source_feasible": s[3], "bool_aux": s[4], "real_aux": s[5]})
    full = tier == "thorough" and not replay
    o.level = "model_checking"
    o.coverage = {
        "states": v.distinct + sum(m.get("gen_states", 0) for m in meta.values()),
        "transitions": v.generated + sum(m.get("gen_transitions", 0) for m in meta.values()),
        "traces_validated_against_impl": len(v.stats) if prop != "C08" else sum(1 for e in events if e.get("out") in ("ok", "err")),
        "samples": samples or [{"note": "no sample with auxiliaries in this run"}],
        "evaluations": sum(s[2] for s in v.stats),
        "distinct_nontrivial": nontrivial,
        "rule": "events = (source model, real Linearizer output); families A-D enumerated by TLC from spec/lin/ModelGen.tla"
                " (quick: seeded stride sample, thorough: every member) + seeded random models from the harness;"
                " evaluations = sampled assignments judged; non-trivial = model with feasible and infeasible samples and"
                " at least one auxiliary variable (C01/C07: any; C02: min/max objective with feasible samples and auxiliaries;"
                " C08: compile error, or output with auxiliary variables or named rows)",
        "exhaustive": full,
        "families": meta,
        "outcomes": outs,
        "unverifiable_overflow": v.overflow_ids[:20],
        "grid": "per event 1/g, g in {1,2,4}, window [-4,4] plus far points for infinite declared sides",
    }
    o.assumptions = [
        "declared continuous variables are sampled on a grid (auxiliaries are decided exactly by enumeration + Fourier-Motzkin)",
        "numbers cross to TLC exactly (dyadic rationals) or the case is counted unverifiable",
        "TLC, the CommunityModules Json/IOUtils modules, serde serialisation of Exp/Model/LinearModel",
    ]
    return o.finish()
