"""C12: compiled output is itself a valid program with the same meaning (RenderTrace.tla)."""
import copy
import json
import os
import random

from . import core, fmt, lin, render, rewrite

SPEC_DIR = os.path.join(core.SPEC, "render")
MAGS = [1e-9, 1e9, -1e-9, 2.5e-7, 123456789.0, 0.1, 1.0 / 3.0, 1e-5, 3e-6, -7e8]


def scale_numbers(t, rnd):
    """replace some multiplicative constants by tiny / large / non-dyadic magnitudes"""
    if isinstance(t, dict):
        if t.get("op") == "mul":
            for k in ("a", "b"):
                if t[k].get("op") == "num" and rnd.random() < 0.7:
                    t[k] = {"op": "num", "n": 0, "d": 1, "f": rnd.choice(MAGS)}
        for k in ("a", "b"):
            if k in t:
                scale_numbers(t[k], rnd)
        for a in t.get("args", []):
            scale_numbers(a, rnd)


def perturbed(cases, seed):
    rnd = random.Random(seed)
    out = []
    for c in cases:
        c = copy.deepcopy(c)
        scale_numbers(c["obj"], rnd)
        for k in c["cons"]:
            scale_numbers(k["lhs"], rnd)
            if rnd.random() < 0.3 and k["rhs"].get("op") == "num":
                k["rhs"] = {"op": "num", "n": 0, "d": 1, "f": rnd.choice(MAGS)}
        c["id"] += "m"
        out.append(c)
    return out


def tiny_models():
    """Two-variable rows and objectives whose second coefficient (and objective offset) is of small
    magnitude, either sign: small numbers must keep their sign and digits through both renderings."""
    V = lambda n: {"op": "var", "name": n}
    F = lambda f: {"op": "num", "n": 0, "d": 1, "f": f}
    B = lambda n: {"inf": 0, "n": n, "d": 1}
    out = []
    for i, c in enumerate([1e-6, -1e-6, 2.0 ** -20, -(2.0 ** -20), 9.9e-6, -9.9e-6, 1e-5, -1e-5, 1e-9, -1e-9, -3e-7, 4e-5, -4e-5]):
        for j, off in enumerate([0.0, 1e-6, -1e-6]):
            lin_ = {"op": "add", "a": V("x"), "b": {"op": "mul", "a": F(c), "b": V("y")}}
            obj = lin_ if off == 0.0 else {"op": "add", "a": lin_, "b": F(off)}
            out.append({"id": f"tiny{i}_{j}", "sense": "min", "obj": obj,
                        "cons": [{"lhs": lin_, "cmp": "le", "rhs": {"op": "num", "n": 3, "d": 1}, "assert": False, "name": ""},
                                 {"lhs": {"op": "sub", "a": V("y"), "b": {"op": "mul", "a": F(-c), "b": V("x")}}, "cmp": "ge", "rhs": F(off), "assert": False, "name": ""}],
                        "dom": [{"name": "x", "kind": "real", "lo": B(-4), "hi": B(4)}, {"name": "y", "kind": "real", "lo": B(-3), "hi": B(5)}]})
    return out


def huge_models():
    """Products of in-range constants whose value leaves the i64 range: the coefficient (and the range
    derived from it) prints as a long digit string."""
    V = lambda n: {"op": "var", "name": n}
    F = lambda f: {"op": "num", "n": 0, "d": 1, "f": f}
    B = lambda n: {"inf": 0, "n": n, "d": 1}
    out = []
    for i, (a, b) in enumerate([(1e10, 1e10), (3e9, 4e9), (-1e10, 1e10), (2.0 ** 40, 2.0 ** 30), (1e9, 1e9)]):
        prod = {"op": "mul", "a": F(a), "b": {"op": "mul", "a": F(b), "b": V("x")}}
        out.append({"id": f"huge{i}", "sense": "min", "obj": {"op": "add", "a": V("x"), "b": V("y")},
                    "cons": [{"lhs": {"op": "add", "a": prod, "b": V("y")}, "cmp": "ge" if a > 0 else "le", "rhs": {"op": "num", "n": 1 if a > 0 else -1, "d": 1}, "assert": False, "name": "u"},
                             {"lhs": V("y"), "cmp": "le", "rhs": {"op": "mul", "a": F(abs(a)), "b": F(b)}, "assert": False, "name": ""}],
                    "dom": [{"name": "x", "kind": "real", "lo": B(0), "hi": B(4)}, {"name": "y", "kind": "real", "lo": B(-3), "hi": {"inf": 1, "n": 0, "d": 1}}]})
    return out


def named_negated(cases):
    """The same models with every constant a named constant of the where section and subtraction /
    negative scales spelled with a unary minus: the compiled Model then holds a unary minus over a
    substituted (possibly negative) number; every other one also asserts the literal true."""
    out = []
    for i, c in enumerate(cases):
        m = rewrite.map_case(c, rewrite.negspell)
        nm = rewrite.Named()
        body = render.model_text(m, nm)
        text = render.model_text(m, nm, consts=nm.consts) if nm.consts else body
        if i % 2 == 0:
            text = text.replace("s.t.\n", "s.t.\n    tt: true\n", 1)
        out.append({"id": c["id"] + "n", "text": text})
    return out


def name_programs():
    """Programs whose compiled variable names carry index fragments that are not plain names or canonical
    integers: computed indices that go negative or fractional, string indices with padded digits, names of
    built-in constants, blanks, dashes."""
    def prog(decl, idx, sets):
        where = ("\nwhere\n    " + sets) if sets else ""
        return (f"min sum({idx}) {{ 2 * {decl} }}\ns.t.\n    {decl} >= 1 for {idx}\n    cap: sum({idx}) {{ {decl} }} <= 40{where}"
                f"\ndefine\n    {decl} as Real(0, 10) for {idx}")
    out = [prog("x_{i - 1}", "i in 0..3", ""), prog("x_{i / 2}", "i in 0..3", ""), prog("x_{i - 2}_{i}", "i in 1..4", "")]
    # row names built from the same indices, a literal name that holds a brace index, aggregations over nothing
    out.append("min sum(s in S) { x_s }\ns.t.\n    r_s: x_s >= 1 for s in S\n    cap: sum(s in S) { x_s } <= 20\nwhere\n    let S = [\"01\", \"PI\", \"a\"]\ndefine\n    x_s as Real(0, 10) for s in S")
    out.append("min \\y_{i} + x\ns.t.\n    \\r_{i}: \\y_{i} + x >= 1\ndefine\n    \\y_{i}, x as Real(0, 10)")
    out.append("max a + b\ns.t.\n    k: any(i in 0..0) { x_i } or a\n    not all(i in 0..0) { x_i } or b\ndefine\n    a, b as Boolean\n    x_i as Boolean for i in 0..2")
    for k, strs in enumerate((["007", "01", "7"], ["PI", "Infinity", "MinusInfinity", "E"], ["a", "10", "b2"], ["a-b", "c"], ["a b"], ["", "z"], ["2x"], ["0", "00"])):
        out.append(prog("x_s", "s in S", "let S = [" + ", ".join(f'"{t}"' for t in strs) + "]"))
        out.append(prog("y_s_{i}", "s in S, i in 0..2", "let S = [" + ", ".join(f'"{t}"' for t in strs) + "]"))
    return out


def check(tier, seed, replay=None):
    prop = "C12"
    o = core.Outcome(prop, tier, seed)
    core.build_harness()
    meta = {}
    if replay:
        cases = [json.load(open(replay))]
    else:
        kcases, meta = lin.gen_all("quick", seed, per_family_quick=(250 if tier == "quick" else 20000))
        cases = kcases + perturbed([c for c in kcases if c.get("fam") in ("A", "C", "D", "F")][::3], seed) + tiny_models()
        # compiled models come from the text front end: every case is rendered to source first
        cases = [{"id": c["id"], "text": render.model_text(c, rewrite.plain)} for c in cases + huge_models()]
        cases += named_negated([c for c in kcases if c.get("fam") != "E"][seed % 3::3])
        cases += [{"id": f"prog{i}", "text": p} for i, p in enumerate(fmt.programs())]
        cases += [{"id": f"name{i}", "text": p} for i, p in enumerate(name_programs())]
        # programs of spec/lin/NameGen.tla: constraints that compile to none, one or two rows under user-written names
        # that collide with each other and with the suffixes the compiler generates (the rendered text is compiled again,
        # which runs the naming a second time over names that already carry suffixes)
        ng, g_, d_ = core.gen_cases(lin.SPEC_DIR, "NameGen.tla", "NameGen.cfg", "namegen", workers=4)
        meta["NameGen"] = {"cases": len(ng), "gen_states": d_, "gen_transitions": g_}
        kk = max(1, len(ng) // (300 if tier == "quick" else 4000))
        cases += [{"id": f"rownames{i}", "text": c["text"]} for i, c in list(enumerate(ng))[seed % kk::kk]]
        d = core.rundir(prop)
        rp = os.path.join(d, "rand.ndjson")
    events = core.rv_parallel("render", cases, prop, procs=8)
    v = core.validate(SPEC_DIR, "RenderTrace.tla", "RenderTrace.cfg", events, prop, prop, chunks=12)
    byid = {e["id"]: e for e in events}
    bycase = {c["id"]: c for c in cases}
    for r in v.rejects:
        ev = byid.get(r[2], {})
        which = "from_model" if "rendered model" in r[3] else "from_lm"
        txt = ev.get("modeltext") if which == "from_model" else ev.get("lmtext")
        sig = r[3] if r[3].startswith(("KNOWN-SHAPE", "KNOWN-NAME")) else f"{r[3]}:{txt}"
        o.violation(sig, bycase.get(r[2], {}), f"{r[3]}\n--- text ---\n{txt}\n--- {ev.get(which, {}).get('why', '')[:300]}")
    skipped = {}
    for s in v.skips:
        skipped[s[2]] = skipped.get(s[2], 0) + 1
    samples = [{"model_text": e["modeltext"], "linear_text": e["lmtext"]} for e in events if e.get("out") == "ok"][:2]
    o.level = "exploration"
    o.coverage = {
        "evaluations": len(events),
        "distinct_nontrivial": sum(1 for s in v.stats if s[3] >= 1 and s[2] >= 2),
        "rule": "one event = one compiled model (corpus-K families sampled by seeded stride, a third of them again with coefficients replaced by magnitudes"
                " 1e-9..1e9 and non-dyadic values, and the program corpus): Model::to_string and LinearModel::to_string are compiled again by the whole"
                " front end and compared exactly (sign + bit pattern) with the original linear model; non-trivial = at least two variables and one row",
        "samples": samples or [{"note": "none"}],
        "not_compiled_or_skipped": skipped,
        "states": v.distinct, "transitions": v.generated,
        "families": meta,
    }
    o.assumptions = ["numbers are compared by bit pattern; auxiliary names are deterministic, so variables are matched by name"]
    return o.finish()
