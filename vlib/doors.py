"""C16: all front doors agree (Builder.tla call plans, DoorsTrace.tla)."""
import copy
import json
import os
import random

from . import core, lin, render, rewrite

SPEC_DIR = os.path.join(core.SPEC, "doors")
DECOY = {"op": "add", "a": {"op": "var", "name": "x"}, "b": {"op": "num", "n": 7, "d": 1}}


PIPE_SPEC = os.path.join(core.SPEC, "pipes")
PIPE_TEXT = {
    "real": ("max x + 2 * y\ns.t.\n    x + y <= 4\n    x - y >= -2\n    x <= 3\ndefine\n    x, y as NonNegativeReal", {"n": 7, "d": 1}),
    "mixed": ("max 3 * a + 2 * b + z\ns.t.\n    2 * a + b + z <= 4\ndefine\n    a as Boolean\n    b as IntegerRange(0, 3)\n    z as NonNegativeReal(0, 1.5)",
              {"n": 7, "d": 1}),
}


def pipe_runs(prop, o, meta, only=None):
    """Every pipe sequence up to MaxLen of Pipes.tla (its design invariants are checked by TLC
    while it generates), run through the real PipeRunner and judged by PipesTrace.tla."""
    cases = list(only or [])
    for cls in (() if only else ("real", "mixed")):
        cs, g, d = core.gen_cases(PIPE_SPEC, "Pipes.tla", f"Pipes_{cls}.cfg", "pipes" + cls, workers=2)
        meta["pipes:" + cls] = {"cases": len(cs), "gen_states": d, "gen_transitions": g}
        for i, c in enumerate(cs):
            c.update(id=f"P{cls}{i}", text=PIPE_TEXT[cls][0], optimum=PIPE_TEXT[cls][1])
        cases += cs
    events = core.rv_parallel("pipes", cases, prop + "-pipes", procs=8)
    v = core.validate(PIPE_SPEC, "PipesTrace.tla", "PipesTrace.cfg", events, prop, prop + "-pipes", chunks=6)
    byid = {e["id"]: e for e in events}
    for r in v.rejects:
        ev = byid.get(r[2], {})
        o.violation(f"pipes:{r[3]}:{ev.get('class')}:{'>'.join(ev.get('pipes', []))}",
                    {k: ev.get(k) for k in ("id", "pipes", "data", "status", "expected", "got", "class", "text", "optimum")},
                    f"{r[3]}\n  pipes {ev.get('pipes')} over the {ev.get('class')} text: predicted {ev.get('status')} {ev.get('data')} / real {ev.get('out')} {ev.get('kinds')} {ev.get('why', '')[:120]}")
    return v, events


def decl_runs(prop, o, meta, only=None):
    """Every declaration of Decls.tla through vars!, the builder methods and the text, judged by DeclsTrace.tla."""
    if only:
        cases = list(only)
    else:
        cases, g, d = core.gen_cases(SPEC_DIR, "Decls.tla", "Decls.cfg", "decls", workers=2)
        meta["decls"] = {"cases": len(cases), "gen_states": d, "gen_transitions": g}
        for i, c in enumerate(cases):
            c["id"] = f"D{i}"
    events = core.rv_parallel("decls", cases, prop + "-decls", procs=4)
    v = core.validate(SPEC_DIR, "DeclsTrace.tla", "DeclsTrace.cfg", events, prop, prop + "-decls", chunks=4)
    byid = {e["id"]: e for e in events}
    for r in v.rejects:
        ev = byid.get(r[2], {})
        o.violation(f"decl:{r[3]}:{ev.get('kind')}({ev.get('lo')},{ev.get('hi')}) {ev.get('form')}[{ev.get('n')}]",
                    {k: ev.get(k) for k in ("id", "kind", "lo", "hi", "form", "n", "text", "valid", "declared")},
                    f"{r[3]}\n  {ev.get('kind')}({ev.get('lo')}, {ev.get('hi')}) as {ev.get('form')}[{ev.get('n')}]: "
                    + "; ".join(f"{d_}={ev.get(d_, {}).get('out')} {[(x['name'], x['kind'], x['lo']['n'], x['hi']['n']) for x in ev.get(d_, {}).get('decl', [])]}" for d_ in "MFT"))
    return v


def chain_runs(prop, o, meta, only=None):
    """Every chain of Chains.tla (-> and <-> without parentheses) through constraint!, expr! and the text,
    judged by ChainsTrace.tla against the reference reading of common/Pratt.tla."""
    if only:
        cases = list(only)
    else:
        cases, g, d = core.gen_cases(SPEC_DIR, "Chains.tla", "Chains.cfg", "chains", workers=2)
        meta["chains"] = {"cases": len(cases), "gen_states": d, "gen_transitions": g}
        for i, c in enumerate(cases):
            c["id"] = f"L{i}"
    events = core.rv_parallel("chains", cases, prop + "-chains", procs=4)
    v = core.validate(SPEC_DIR, "ChainsTrace.tla", "ChainsTrace.cfg", events, prop, prop + "-chains", chunks=4)
    byid = {e["id"]: e for e in events}
    for r in v.rejects:
        ev = byid.get(r[2], {})
        o.violation(f"chain:{r[3]}:{ev.get('chain')}", {k: ev.get(k) for k in ("id", "ops", "forms", "tokens", "chain", "text")},
                    f"{r[3]}\n  {ev.get('chain')}")
    return v


def plans():
    out, meta = {}, {}
    for n in (0, 1, 2):
        cs, g, d = core.gen_cases(SPEC_DIR, "Builder.tla", f"Plans{n}.cfg", f"plans{n}", workers=2)
        out[n] = cs
        meta[f"plans{n}"] = {"cases": len(cs), "gen_states": d, "gen_transitions": g}
    return out, meta


OPD_DOM = [
    {"name": "x", "kind": "int", "lo": {"inf": 0, "n": -1, "d": 1}, "hi": {"inf": 0, "n": 2, "d": 1}},
    {"name": "y", "kind": "int", "lo": {"inf": 0, "n": 0, "d": 1}, "hi": {"inf": 0, "n": 2, "d": 1}},
    {"name": "p", "kind": "bool", "lo": {"inf": 0, "n": 0, "d": 1}, "hi": {"inf": 0, "n": 1, "d": 1}},
    {"name": "q", "kind": "bool", "lo": {"inf": 0, "n": 0, "d": 1}, "hi": {"inf": 0, "n": 1, "d": 1}},
]


def _num(n):
    return {"op": "num", "n": n, "d": 1}


def _vars(t, acc):
    if t["op"] == "var":
        acc.add(t["name"])
    for k in ("a", "b"):
        if k in t:
            _vars(t[k], acc)
    for x in t.get("args", []):
        _vars(x, acc)


LOGIC_OPS = {"and", "or", "not", "u_not", "xor", "implies", "iff", "b_and", "b_or", "b_xor", "b_implies", "b_iff"}


def well_typed(t, logic=False):
    """The text language's static typing wants Booleans in logic operand positions: a numeric
    literal other than the ones written true / false there is rejected by the type checker (the
    doors that run it reject the program, the ones that do not compile it) - such programs are
    not models of the text language and are left out."""
    op = t["op"]
    if op == "num":
        return not logic or (t["d"] == 1 and t["n"] in (0, 1))
    if op == "var":
        return not logic or t["name"] in ("p", "q")
    lg = op in LOGIC_OPS
    if logic and not lg:
        return False
    kids = [t[k] for k in ("a", "b") if k in t] + list(t.get("args", []))
    return all(well_typed(k, lg) for k in kids)


def bool_literal(t):
    """Trees the renderer writes as the literals true / false (an empty and / or, or one around a 0 / 1
    constant): a Boolean literal as a whole comparison side or objective is rejected by the type checker."""
    if t["op"] in ("and", "or"):
        a = t.get("args", [])
        return len(a) == 0 or (len(a) == 1 and (bool_literal(a[0]) or (a[0]["op"] == "num" and a[0]["d"] == 1 and a[0]["n"] in (0, 1))))
    return False


def lone_operand(t):
    """An and / or over a single operand that is not a truth value has no spelling in the text language
    (the renderer writes the operand alone, which is a different program)."""
    kids = [t[k] for k in ("a", "b") if k in t] + list(t.get("args", []))
    if t["op"] in ("and", "or") and len(kids) == 1 and not well_typed(kids[0], True):
        return True
    return any(lone_operand(k) for k in kids)


def _tree_vars(t):
    acc = set()
    _vars(t, acc)
    return acc


def operand_models(tier, seed, meta, assoc_all=False):
    """Models around the expression trees of ExprGen (every operator over every pair of operand
    kinds: handle / integer / float / Boolean literal / compound, both orders): the tree as the
    objective, as one side of a constraint, or (logic trees) as an assertion."""
    out = []
    for fam, nquick in (("d1", 500), ("d2num", 500), ("d2log", 300), ("assoc", 500), ("idlog", 400), ("idvar", 216)):
        cs, g, d = core.gen_cases(rewrite.SPEC_DIR, "ExprGen.tla", f"Gen_{fam}.cfg", "ex" + fam, workers=8)
        meta["operands:" + fam] = {"cases": len(cs), "gen_states": d, "gen_transitions": g}
        if tier == "quick" and fam == "assoc" and assoc_all:
            cs = list(enumerate(cs))
        elif tier == "quick" and fam == "assoc":
            # every (grouping, operator, operator) at least three times: the leaves vary with the seed
            groups = {}
            for i, c in enumerate(cs):
                t = c["tree"]
                left = t["a"].get("op") not in ("var", "num")
                inner = t["a"] if left else t["b"]
                groups.setdefault((left, t["op"], inner["op"]), []).append((i, c))
            cs = sorted(sum(([g[(seed + j * 3) % len(g)] for j in range(3)] for g in groups.values()), []), key=lambda ic: ic[0])
        elif tier == "quick":
            k = max(1, len(cs) // nquick)
            cs = [(i, c) for i, c in enumerate(cs)][seed % k::k]
        else:
            cs = list(enumerate(cs))
        skipped = 0
        for pos, (i, c) in enumerate(cs):
            t = c["tree"]
            # programs the static typing refuses are judged by the weaker rule of DoorsTrace (a door that
            # answers answers right); a rotating share of them, and all of family idlog, is kept
            ill = not well_typed(t) or bool_literal(t)
            if lone_operand(t):
                skipped += 1
                continue
            if ill and fam not in ("idlog", "idvar") and (i + seed) % (1 if tier == "thorough" else 4):
                skipped += 1
                continue
            xy = {"lhs": {"op": "add", "a": {"op": "var", "name": "x"}, "b": {"op": "var", "name": "y"}}, "cmp": "le", "rhs": _num(3), "assert": False, "name": ""}
            mode = (i + seed) % 4
            if mode == 0:
                m = {"sense": "max", "obj": t, "cons": [xy]}
            elif mode == 1:
                m = {"sense": "min", "obj": t, "cons": [xy]}
            elif mode == 2:
                m = {"sense": "max", "obj": {"op": "add", "a": {"op": "var", "name": "x"}, "b": {"op": "var", "name": "q"}},
                     "cons": [{"lhs": t, "cmp": "le", "rhs": _num(1), "assert": False, "name": ""}, xy]}
            else:
                m = {"sense": "min", "obj": {"op": "sub", "a": {"op": "var", "name": "y"}, "b": {"op": "var", "name": "p"}},
                     "cons": [{"lhs": _num(1), "cmp": "le", "rhs": t, "assert": False, "name": ""}, xy]}
            if fam in ("d2log", "assoc") and i % 3 != 1 and t["op"] in LOGIC_OPS:
                a = {"lhs": t, "cmp": "eq", "rhs": _num(1), "assert": True, "name": ""}
                if mode >= 2:
                    m["cons"][0] = a
                else:
                    m["cons"].append(a)
                # an objective over the Booleans, in one of four directions, so that the optimum depends
                # on which assignments the assertion admits
                pv, qv = {"op": "var", "name": "p"}, {"op": "var", "name": "q"}
                sense, op = [("min", "add"), ("max", "add"), ("min", "sub"), ("max", "sub")][(pos + seed) % 4]
                m["sense"], m["obj"] = sense, {"op": op, "a": pv, "b": qv}
            used = set()
            _vars(m["obj"], used)
            for c_ in m["cons"]:
                _vars(c_["lhs"], used)
                _vars(c_["rhs"], used)
            m["dom"] = [copy.deepcopy(d_) for d_ in OPD_DOM if d_["name"] in used]
            m["id"] = f"O{fam}_{i}"
            if ill:
                m["illtyped"] = True
            out.append(m)
            if fam == "assoc" and assoc_all and m["cons"] and any(c_.get("assert") for c_ in m["cons"]):
                # the grouping of a chain decides which assignments it admits: judge it under every direction
                # of the Boolean objective, not only the one chosen above
                for vi, (sense, op) in enumerate([("min", "add"), ("max", "add"), ("min", "sub"), ("max", "sub")]):
                    if (sense, op) != (m["sense"], m["obj"].get("op")):
                        m2 = copy.deepcopy(m)
                        m2["sense"], m2["obj"] = sense, {"op": op, "a": {"op": "var", "name": "p"}, "b": {"op": "var", "name": "q"}}
                        names = {"p", "q"} | used
                        m2["dom"] = [copy.deepcopy(d_) for d_ in OPD_DOM if d_["name"] in names]
                        m2["id"] = f"O{fam}_{i}v{vi}"
                        out.append(m2)
        meta["operands:" + fam]["ill_typed_left_out"] = skipped
    return out


def expected_model(case, plan):
    m = copy.deepcopy(case)
    if plan["expected"] == "sat":
        m["sense"], m["obj"] = "sat", {"op": "num", "n": 0, "d": 1}
    elif plan["expected"] == "decoy":
        m["sense"], m["obj"] = "min", copy.deepcopy(DECOY)
    elif case["sense"] == "sat":
        m["sense"], m["obj"] = "sat", {"op": "num", "n": 0, "d": 1}
    return m


def check(tier, seed, replay=None):
    prop = "C16"
    o = core.Outcome(prop, tier, seed)
    core.build_harness()
    meta = {}
    pipe_only = decl_only = chain_only = None
    if replay:
        c = json.load(open(replay))
        cases = [c]
        if "pipes" in c:
            pipe_only, cases = [c], []
        elif "declared" in c:
            decl_only, cases = [c], []
        elif "chain" in c:
            chain_only, cases = [c], []
    else:
        pl, meta = plans()
        cs, g, d = core.gen_cases(lin.SPEC_DIR, "ModelGen.tla", "GenG.cfg", "genG", workers=8)
        for i, c in enumerate(cs):
            c["id"] = f"G{i}"
        meta["G"] = {"cases": len(cs), "gen_states": d, "gen_transitions": g}
        k = max(1, len(cs) // (700 if tier == "quick" else 12000))
        cs = cs[seed % k::k]
        nsim = 15 if tier == "quick" else 400
        hs, g2, d2 = core.gen_cases(lin.SPEC_DIR, "ModelGen.tla", "GenH.cfg", "genH", workers=1,
                                    extra=["-simulate", f"num={nsim}", "-depth", "6", "-seed", str(seed)], cache_key=[nsim, seed])
        for i, c in enumerate(hs):
            c["id"] = f"H{seed}_{i}"
        meta["H"] = {"cases": len(hs), "simulated_behaviours": nsim}
        hs = hs[:700] if tier == "quick" else hs
        os_ = operand_models(tier, seed, meta)
        rnd = random.Random(seed)
        d1, _, _ = core.gen_cases(rewrite.SPEC_DIR, "ExprGen.tla", "Gen_d1.cfg", "exd1", workers=8)
        probe_pool = [c_["tree"] for c_ in d1 if well_typed(c_["tree"]) and not bool_literal(c_["tree"])]
        cases = []
        for i, c in enumerate(cs + hs + os_):
            plan = rnd.choice(pl[min(2, len(c["cons"]))])
            named = i % 2 == 0
            for j, con in enumerate(c["cons"]):
                con["name"] = f"c{j + 1}" if named else ""
            m = expected_model(c, plan)
            nm = rewrite.Named()
            render.model_text(m, nm)           # collects the constants
            ktext = render.model_text(m, nm)
            kvals = {k_: float(eval(v.strip("()").replace("(-", "-"))) for k_, v in nm.consts.items()}
            kapi = kvals
            if i % 2 == 1 and kvals:
                # every second case: the caller supplies b<k> = k - 1 and the text derives `let k = b<k> + 1` in its
                # where block - a constant of the text computed from a constant of the API (the API's are declared first)
                ktext = render.model_text(m, nm, consts={k_: f"b{k_} + 1" for k_ in kvals})
                kapi = {f"b{k_}": v - 1 for k_, v in kvals.items()}
            case = dict(m, id=c["id"], plan=plan, decoy=DECOY,
                        text=render.program_min(m, style=i % 2, named=False) if not named else named_text(m, i % 2),
                        ktext=ktext, kconsts=[{"name": k_, "v": v} for k_, v in kapi.items()])
            # probes: expression trees that are not part of the model, over its variables, for eval() at the solution
            names_ = {d_["name"] for d_ in m["dom"]}
            ok_ = [t_ for t_ in probe_pool if _tree_vars(t_) <= names_]
            # every min / max / abs / neg probe (their evaluators fold from a seed value) and a rotating share of the rest
            case["probes"] = [t_ for t_ in ok_ if t_["op"] in ("min", "max", "abs", "neg")][(i % 3)::3] + \
                             [t_ for t_ in ok_ if t_["op"] not in ("min", "max", "abs", "neg")][(i * 5) % 11::11][:10]
            # the builder is given the REAL objective and the decoy; the plan decides which one wins
            case["obj_real"] = c["obj"]
            cases.append(dict(case, obj=m["obj"], sense=m["sense"], builder_obj=c["obj"], builder_sense=c["sense"]))
    events = core.rv_parallel("doors", cases, prop, procs=10) if cases else []
    v = core.validate(SPEC_DIR, "DoorsTrace.tla", "DoorsTrace.cfg", events, prop, prop, chunks=12)
    bycase = {c["id"]: c for c in cases}
    byid = {e["id"]: e for e in events}
    for r in v.rejects:
        c = bycase.get(r[2], {})
        ev = byid.get(r[2], {})
        door = r[3].split(":")[0] if ":" in r[3] else "B"
        res = ev.get(door, {}) if door in "BNTKPS" else {}
        o.violation(f"{r[3]}:{c.get('text')}", c, f"{r[3]}\n{c.get('text')}\nplan={[(x['call'], x['n'], x['obj']) for x in c.get('plan', {}).get('calls', [])]} -> {res.get('out')} {res.get('kind','')} {res.get('why','')[:150]}")
    pv, pev = (None, []) if (replay and not pipe_only) else pipe_runs(prop, o, meta, pipe_only)
    dv = None if (replay and not decl_only) else decl_runs(prop, o, meta, decl_only)
    cv = None if (replay and not chain_only) else chain_runs(prop, o, meta, chain_only)
    same = sum(1 for s in v.stats if s[3] == 1)
    samples = [{"text": c["text"], "plan": [(x["call"], x["n"], x["obj"]) for x in c["plan"]["calls"]], "expected_objective": c["plan"]["expected"]} for c in cases[::max(1, len(cases) // 3)]][:3]
    o.level = "model_checking"
    o.coverage = {
        "states": v.distinct + (pv.distinct if pv else 0) + sum(m.get("gen_states", 0) for m in meta.values()),
        "transitions": v.generated + (pv.generated if pv else 0) + sum(m.get("gen_transitions", 0) for m in meta.values()),
        "traces_validated_against_impl": len(v.stats) + (len(pv.stats) if pv else 0) + (len(dv.stats) if dv else 0) + (len(cv.stats) if cv else 0),
        "logic_chains_through_macros": {"validated": len(cv.stats) if cv else 0},
        "declarations": {"validated": len(dv.stats) if dv else 0, "valid": sum(1 for s_ in (dv.stats if dv else []) if s_[4] == 1)},
        "pipe_runs": {"validated": len(pv.stats) if pv else 0,
                      "well_typed": sum(1 for s_ in (pv.stats if pv else []) if s_[2] == "ok"),
                      "kind_mismatch": sum(1 for s_ in (pv.stats if pv else []) if s_[2] == "invalid"),
                      "refused_by_real_solver": sum(1 for s_ in (pv.stats if pv else []) if s_[2] == "refused"),
                      "ending_in_a_compared_optimum": sum(1 for s_ in (pv.stats if pv else []) if s_[4] == 1)},
        "samples": samples,
        "evaluations": len(events) * 7,
        "native_overload_trees_equal_to_expr_trees": sum(1 for s in v.stats if len(s) > 5 and s[5] == 1),
        "distinct_nontrivial": same,
        "rule": "one event = one abstract model (ModelGen family G sampled, H simulated) with a call plan from Builder.tla (all interleavings of with / with_all / objective"
                " calls up to 4 calls, enumerated by TLC), taken through seven doors: builder with every operand an Expr (solved by Auto, and again by the MicroLP solver object), builder written natively (most specific operator overload per operand kind: handle / i32 / f64 / bool / &Expr, list helpers over handles, sum(), constraint! macros per relation), text, text with API-supplied constants, pipes, one-shot;"
                " non-trivial = builder and text produced identical Model trees (row-for-row comparison applies)",
        "exhaustive": False,
        "families": meta,
        "unverifiable_overflow_count": len(v.overflow_ids),
    }
    o.assumptions = ["integer and Boolean domains (answers judged by complete enumeration)", "vars! is exercised with one fixed identifier per kind and form (spec/doors/Decls.tla); constraint!/expr! with one expression per side"]
    return o.finish()


def named_text(m, style):
    lines = ["solve" if m["sense"] == "sat" else f"{m['sense']} {render.expr_min(m['obj'], style)}", "s.t."]
    for c in m["cons"]:
        nm = f"{c['name']}: " if c.get("name") else ""
        if c.get("assert"):
            lines.append(f"    {nm}{render.expr_min(c['lhs'], style, True)}")
        else:
            lines.append(f"    {nm}{render.expr_min(c['lhs'], style)} {render.CMP[c['cmp']]} {render.expr_min(c['rhs'], style)}")
    if not m["cons"]:
        lines.append("    0 <= 1")
    lines.append("define")
    for d in m["dom"]:
        lines.append("    " + render.decl(d))
    return "\n".join(lines)
