"""C16: all front doors agree (Builder.tla call plans, DoorsTrace.tla)."""
import copy
import json
import os
import random

from . import core, lin, render, rewrite

SPEC_DIR = os.path.join(core.SPEC, "doors")
DECOY = {"op": "add", "a": {"op": "var", "name": "x"}, "b": {"op": "num", "n": 7, "d": 1}}


def plans():
    out, meta = {}, {}
    for n in (0, 1, 2):
        cs, g, d = core.gen_cases(SPEC_DIR, "Builder.tla", f"Plans{n}.cfg", f"plans{n}", workers=2)
        out[n] = cs
        meta[f"plans{n}"] = {"cases": len(cs), "gen_states": d, "gen_transitions": g}
    return out, meta


def expected_model(case, plan):
    m = copy.deepcopy(case)
    if plan["expected"] == "sat":
        m["sense"], m["obj"] = "sat", {"op": "num", "n": 0, "d": 1}
    elif plan["expected"] == "decoy":
        m["sense"], m["obj"] = "min", copy.deepcopy(DECOY)
    elif case["sense"] == "sat":
        m["sense"], m["obj"] = "sat", {"op": "num", "n": 0, "d": 1}
    return m


def check(tier, seed, replay=None):
    prop = "C16"
    o = core.Outcome(prop, tier, seed)
    core.build_harness()
    meta = {}
    if replay:
        c = json.load(open(replay))
        cases = [c]
    else:
        pl, meta = plans()
        cs, g, d = core.gen_cases(lin.SPEC_DIR, "ModelGen.tla", "GenG.cfg", "genG", workers=8)
        for i, c in enumerate(cs):
            c["id"] = f"G{i}"
        meta["G"] = {"cases": len(cs), "gen_states": d, "gen_transitions": g}
        k = max(1, len(cs) // (700 if tier == "quick" else 12000))
        cs = cs[seed % k::k]
        nsim = 15 if tier == "quick" else 400
        hs, g2, d2 = core.gen_cases(lin.SPEC_DIR, "ModelGen.tla", "GenH.cfg", "genH", workers=1,
                                    extra=["-simulate", f"num={nsim}", "-depth", "6", "-seed", str(seed)], cache_key=[nsim, seed])
        for i, c in enumerate(hs):
            c["id"] = f"H{seed}_{i}"
        meta["H"] = {"cases": len(hs), "simulated_behaviours": nsim}
        hs = hs[:700] if tier == "quick" else hs
        rnd = random.Random(seed)
        cases = []
        for i, c in enumerate(cs + hs):
            plan = rnd.choice(pl[min(2, len(c["cons"]))])
            named = i % 2 == 0
            for j, con in enumerate(c["cons"]):
                con["name"] = f"c{j + 1}" if named else ""
            m = expected_model(c, plan)
            nm = rewrite.Named()
            render.model_text(m, nm)           # collects the constants
            ktext = render.model_text(m, nm)
            case = dict(m, id=c["id"], plan=plan, decoy=DECOY,
                        text=render.program_min(m, style=i % 2, named=False) if not named else named_text(m, i % 2),
                        ktext=ktext, kconsts=[{"name": k_, "v": float(eval(v.strip("()").replace("(-", "-")))} for k_, v in nm.consts.items()])
            # the builder is given the REAL objective and the decoy; the plan decides which one wins
            case["obj_real"] = c["obj"]
            cases.append(dict(case, obj=m["obj"], sense=m["sense"], builder_obj=c["obj"], builder_sense=c["sense"]))
    events = core.rv_parallel("doors", cases, prop, procs=10)
    v = core.validate(SPEC_DIR, "DoorsTrace.tla", "DoorsTrace.cfg", events, prop, prop, chunks=12)
    bycase = {c["id"]: c for c in cases}
    byid = {e["id"]: e for e in events}
    for r in v.rejects:
        c = bycase.get(r[2], {})
        ev = byid.get(r[2], {})
        door = r[3].split(":")[0] if ":" in r[3] else "B"
        res = ev.get(door, {}) if door in "BTKPS" else {}
        o.violation(f"{r[3]}:{c.get('text')}", c, f"{r[3]}\n{c.get('text')}\nplan={[(x['call'], x['n'], x['obj']) for x in c.get('plan', {}).get('calls', [])]} -> {res.get('out')} {res.get('kind','')} {res.get('why','')[:150]}")
    same = sum(1 for s in v.stats if s[3] == 1)
    samples = [{"text": c["text"], "plan": [(x["call"], x["n"], x["obj"]) for x in c["plan"]["calls"]], "expected_objective": c["plan"]["expected"]} for c in cases[::max(1, len(cases) // 3)]][:3]
    o.level = "model_checking"
    o.coverage = {
        "states": v.distinct + sum(m.get("gen_states", 0) for m in meta.values()),
        "transitions": v.generated + sum(m.get("gen_transitions", 0) for m in meta.values()),
        "traces_validated_against_impl": len(v.stats),
        "samples": samples,
        "evaluations": len(events) * 5,
        "distinct_nontrivial": same,
        "rule": "one event = one abstract model (ModelGen family G sampled, H simulated) with a call plan from Builder.tla (all interleavings of with / with_all / objective"
                " calls up to 4 calls, enumerated by TLC), taken through five doors: builder (methods + operators), text, text with API-supplied constants, pipes, one-shot;"
                " non-trivial = builder and text produced identical Model trees (row-for-row comparison applies)",
        "exhaustive": False,
        "families": meta,
        "unverifiable_overflow_count": len(v.overflow_ids),
    }
    o.assumptions = ["integer and Boolean domains (answers judged by complete enumeration)", "the macro front end (vars!, constraint!, expr!) is not exercised: it expands to the same method calls at compile time"]
    return o.finish()


def named_text(m, style):
    lines = ["solve" if m["sense"] == "sat" else f"{m['sense']} {render.expr_min(m['obj'], style)}", "s.t."]
    for c in m["cons"]:
        nm = f"{c['name']}: " if c.get("name") else ""
        if c.get("assert"):
            lines.append(f"    {nm}{render.expr_min(c['lhs'], style, True)}")
        else:
            lines.append(f"    {nm}{render.expr_min(c['lhs'], style)} {render.CMP[c['cmp']]} {render.expr_min(c['rhs'], style)}")
    if not m["cons"]:
        lines.append("    0 <= 1")
    lines.append("define")
    for d in m["dom"]:
        lines.append("    " + render.decl(d))
    return "\n".join(lines)
