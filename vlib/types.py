"""C19: type checking is sound (TypeGen.tla perturbs one position, TypeTrace.tla judges)."""
import json
import os

from . import core, expand as expand_mod

SPEC_DIR = os.path.join(core.SPEC, "types")


def check(tier, seed, replay=None):
    prop = "C19"
    o = core.Outcome(prop, tier, seed)
    core.build_harness()
    meta = {}
    if replay:
        c = json.load(open(replay))
        cases = [{k: c.get(k, "") for k in ("id", "text", "pos", "filler", "where", "decision", "families")}]
    else:
        cases, g, d = core.gen_cases(SPEC_DIR, "TypeGen.tla", "TypeGen.cfg", "typegen", workers=4)
        for i, c in enumerate(cases):
            c["id"] = f"T{i}"
        meta["TypeGen"] = {"cases": len(cases), "gen_states": d, "gen_transitions": g}
        # the valid programs of the expansion families must be accepted AND transform: non-vacuity of acceptance
        extra = []
        for fam in ("one", "enum", "graph"):
            cs, g2, d2 = core.gen_cases(expand_mod.SPEC_DIR, "Expand.tla", f"Gen_{fam}.cfg", "exp" + fam, workers=4)
            k = 1 if tier == "thorough" else 4
            for i, c in enumerate(cs[seed % k::k]):
                extra.append({"id": f"V{fam}{i}", "text": c["prog"], "pos": "valid program", "filler": "", "where": "valid",
                              "decision": [], "families": ["x_", "y_", "z_", "f_"]})
        cases += extra
    events = core.rv_parallel("typecheck", cases, prop, procs=8)
    v = core.validate(SPEC_DIR, "TypeTrace.tla", "TypeTrace.cfg", events, prop, prop, chunks=8)
    byid = {e["id"]: e for e in events}
    for r in v.rejects:
        ev = byid.get(r[2], {})
        known_class = "type-class error" not in r[3]
        sig = r[3] if known_class else f"{r[3]}: position `{ev.get('pos')}` filled with `{ev.get('filler')}`"
        o.violation(sig, {k: ev.get(k) for k in ("id", "text", "pos", "filler", "where", "decision", "families")},
                    f"{r[3]}\n  position `{ev.get('pos')}` filler `{ev.get('filler')}`: {ev.get('tr', {}).get('text', '')}")
    acc = sum(1 for s in v.stats if s[2] == "accepted")
    rej = sum(1 for s in v.stats if s[2] == "rejected")
    acc_ok = sum(1 for s in v.stats if s[2] == "accepted" and s[3] == "ok")
    acc_data = {}
    for s in v.stats:
        if s[2] == "accepted" and s[3] != "ok":
            acc_data[s[3]] = acc_data.get(s[3], 0) + 1
    rejkinds = {}
    for s in v.stats:
        if s[2] == "rejected":
            rejkinds[s[4]] = rejkinds.get(s[4], 0) + 1
    samples = [{"position": e["pos"], "filler": e["filler"], "accepted": e.get("accepted"), "transform": (e.get("tr", {}).get("kind") or "ok")} for e in events[::max(1, len(events) // 6)]][:6]
    o.level = "model_checking"
    o.coverage = {
        "states": v.distinct + sum(m.get("gen_states", 0) for m in meta.values()),
        "transitions": v.generated + sum(m.get("gen_transitions", 0) for m in meta.values()),
        "traces_validated_against_impl": len(v.stats),
        "samples": samples,
        "evaluations": len(events),
        "distinct_nontrivial": acc,
        "rule": "one event = one program: every (position, filler) pair of spec/types/TypeGen.tla (enumerated completely) plus valid programs of the expansion families;"
                " non-trivial = program accepted by the type checker (the implication is exercised)",
        "exhaustive": not replay,
        "accepted": acc, "rejected": rej, "accepted_and_transformed": acc_ok,
        "accepted_but_data_error": acc_data, "rejections_by_kind": rejkinds,
        "families": meta,
    }
    o.assumptions = ["soundness only: rejections of the type checker are counted for non-vacuity, not judged",
                     "the classification of ambiguous error kinds (BinOpError/UnOpError by operand kinds, Other by message) is part of TypeTrace.tla"]
    return o.finish()
