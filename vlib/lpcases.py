"""GEN for LinearModel-level cases: spec/lp/LpGen.tla families."""
import os

from . import core

SPEC_DIR = os.path.join(core.SPEC, "lp")


def family(cfg, tier, seed, quick_n, sim=None, module="LpGen.tla"):
    """Exhaustive family (cfg) with a seeded stride sample in the quick tier, or a
    TLC simulation (`sim` = (num, depth)) of the same machine."""
    tag = "lp" + cfg[:-4]
    if sim:
        num, depth = sim
        cs, g, d = core.gen_cases(SPEC_DIR, module, cfg, tag, workers=1,
                                  extra=["-simulate", f"num={num}", "-depth", str(depth), "-seed", str(seed)],
                                  cache_key=[num, depth, seed])
        meta = {"cases": len(cs), "simulated_behaviours": num}
        for i, c in enumerate(cs):
            c["id"] = f"{cfg[:-4]}_s{seed}_{i}"
        if quick_n and len(cs) > quick_n:
            k = len(cs) // quick_n
            cs = cs[seed % k::k]
        return cs, meta
    cs, g, d = core.gen_cases(SPEC_DIR, module, cfg, tag, workers=8)
    for i, c in enumerate(cs):
        c["id"] = f"{cfg[:-4]}_{i}"
    meta = {"cases": len(cs), "gen_states": d, "gen_transitions": g}
    if tier == "quick" and quick_n and len(cs) > quick_n:
        k = len(cs) // quick_n
        cs = cs[seed % k::k]
        meta["stride"] = k
    return cs, meta
