"""C04 (returned solutions feasible and self-consistent) and C05 (verdicts and
optimal values correct): every built-in solver entry point on LpGen models,
judged by spec/solve/SolveTrace.tla against the exact FM/enumeration oracle."""
import copy
import json
import os

from . import core, lpcases

SPEC_DIR = os.path.join(core.SPEC, "solve")

B = lambda inf, n: {"inf": inf, "n": n, "d": 1}
HAND = [
    # no variables at all: only the rows decide
    {"id": "h_empty_ok", "sense": "min", "obj": [], "off": 3, "den": 1, "vars": [], "rows": [{"a": [], "cmp": "le", "b": 1, "name": ""}]},
    {"id": "h_empty_contra", "sense": "min", "obj": [], "off": 0, "den": 1, "vars": [], "rows": [{"a": [], "cmp": "eq", "b": 1, "name": ""}]},
    {"id": "h_empty_contra_sat", "sense": "sat", "obj": [], "off": 0, "den": 1, "vars": [], "rows": [{"a": [], "cmp": "ge", "b": 2, "name": "r1"}]},
    # zero row 0 = 1 next to real rows; duplicate rows; equality-dense
    {"id": "h_zero_row", "sense": "max", "obj": [1], "off": 0, "den": 1, "vars": [{"name": "v0", "kind": "nnreal", "lo": B(0, 0), "hi": B(0, 4)}],
     "rows": [{"a": [0], "cmp": "eq", "b": 1, "name": ""}, {"a": [1], "cmp": "le", "b": 2, "name": ""}]},
    {"id": "h_dup_rows", "sense": "max", "obj": [1, 1], "off": 1, "den": 1,
     "vars": [{"name": "v0", "kind": "nnreal", "lo": B(0, 0), "hi": B(1, 0)}, {"name": "v1", "kind": "int", "lo": B(0, -1), "hi": B(0, 2)}],
     "rows": [{"a": [1, 1], "cmp": "le", "b": 3, "name": "cap"}, {"a": [1, 1], "cmp": "le", "b": 3, "name": "cap"}, {"a": [1, -1], "cmp": "eq", "b": 0, "name": "bal"}]},
    {"id": "h_unb_face", "sense": "min", "obj": [0, 1], "off": 0, "den": 1,
     "vars": [{"name": "v0", "kind": "real", "lo": B(-1, 0), "hi": B(1, 0)}, {"name": "v1", "kind": "nnreal", "lo": B(0, 0), "hi": B(1, 0)}],
     "rows": [{"a": [1, 1], "cmp": "ge", "b": 1, "name": ""}]},
    {"id": "h_int_frac", "sense": "max", "obj": [2, 3], "off": 0, "den": 2,
     "vars": [{"name": "v0", "kind": "int", "lo": B(0, 0), "hi": B(0, 3)}, {"name": "v1", "kind": "bool", "lo": B(0, 0), "hi": B(0, 1)}],
     "rows": [{"a": [4, 6], "cmp": "le", "b": 9, "name": "k"}]},
]


R = lambda name, lo=B(-1, 0), hi=B(1, 0): {"name": name, "kind": "real", "lo": lo, "hi": hi}
NN = lambda name, lo=B(0, 0), hi=B(1, 0): {"name": name, "kind": "nnreal", "lo": lo, "hi": hi}
row = lambda a, cmp, b: {"a": a, "cmp": cmp, "b": b, "name": ""}
# well-scaled integer systems with redundant or inconsistent equality rows and empty rows, on which the interior
# point method stops at points that are no solutions (reported by a seeding sub-agent)
DEGENERATE = [
    {"id": "h_deg_unb_emptyrow", "sense": "min", "obj": [0, 2, 0], "off": 0, "den": 1, "vars": [NN("v0", hi=B(0, 2)), R("v1"), R("v2")],
     "rows": [row([0, 0, 0], "le", 0), row([0, 1, 3], "eq", -13)]},
    {"id": "h_deg_unb_ray", "sense": "min", "obj": [-1, 0, 0, 0], "off": 0, "den": 1,
     "vars": [R("v0"), R("v1", hi=B(0, 0)), R("v2"), NN("v3", lo=B(0, 3))],
     "rows": [row([-2, -1, 1, -1], "eq", 0), row([0, -6, 0, 6], "eq", 44)]},
    {"id": "h_deg_inf_5rows", "sense": "min", "obj": [-3, 0, 2], "off": 0, "den": 1, "vars": [R("v0"), NN("v1"), R("v2")],
     "rows": [row([-3, -1, -1], "eq", 4), row([-2, 1, -2], "eq", 3), row([-2, 3, 0], "ge", 7), row([5, 0, 3], "eq", -7), row([-8, -1, -4], "eq", 12)]},
    {"id": "h_deg_inf_parallel", "sense": "max", "obj": [-1, 0, 0], "off": 0, "den": 1, "vars": [R("v0"), NN("v1"), R("v2", lo=B(0, 0))],
     "rows": [row([0, 0, 0], "eq", 0), row([-1, 3, -1], "eq", 6), row([-2, 6, -2], "eq", 12), row([6, -18, 6], "eq", -36), row([8, -24, 8], "eq", -47)]},
    {"id": "h_empty_model", "sense": "min", "obj": [], "off": 2, "den": 1, "vars": [], "rows": []},
]


# rows whose coefficients are all of magnitude 2^-17 (below 1e-5) next to unit-scale bounds, and rows that
# contradict each other by 2^-18: a solver that compares with an absolute tolerance of 1e-5 takes the
# coefficients for zero or accepts the contradiction (reported by a seeding sub-agent for the tableau simplex)
P17 = 131072
SCALED = [
    {"id": "h_scale_small_coef", "sense": "min", "obj": [-1], "off": 0, "den": P17, "vars": [NN("v0")], "rows": [row([1], "le", 21)]},
    {"id": "h_scale_small_coef_max", "sense": "max", "obj": [1, 1], "off": 0, "den": P17, "vars": [NN("v0"), NN("v1", hi=B(0, 3))],
     "rows": [row([1, 2], "le", 21), row([-1, 0], "ge", -9)]},
    {"id": "h_scale_contradiction", "sense": "min", "obj": [2 * P17], "off": 0, "den": 2 * P17, "vars": [NN("v0")],
     "rows": [row([2 * P17], "ge", 2 * P17 + 1), row([2 * P17], "le", 2 * P17)]},
    {"id": "h_scale_negative_rhs", "sense": "min", "obj": [2 * P17], "off": 0, "den": 2 * P17, "vars": [NN("v0")], "rows": [row([2 * P17], "le", -1)]},
    {"id": "h_scale_eq_contradiction", "sense": "max", "obj": [0], "off": 0, "den": P17, "vars": [R("v0")], "rows": [row([-2], "eq", 4), row([3], "eq", -7)]},
    # a bound of size 1e7: the two-phase start must not take round-off of that size for infeasibility
    # (answers of that size cannot cross to TLC, so the optimum of the model is small)
    {"id": "h_scale_wide_bound", "sense": "max", "obj": [1], "off": 0, "den": 1, "vars": [R("v0", lo=B(0, -10000000), hi=B(0, -4))], "rows": [row([3], "le", -1)]},
    {"id": "h_scale_domain", "sense": "max", "obj": [0, 0, 0], "off": 0, "den": P17, "vars": [R("v0", lo=B(0, -1), hi=B(0, 3)), R("v1", lo=B(0, -3), hi=B(0, -1)), R("v2")],
     "rows": [row([2, 4, 0], "ge", -5), row([-4, 0, 0], "ge", -2), row([0, 1, -3], "eq", 3)]},
]


# entries of 2^-20 (9.5e-7, below 1e-6) as the only positive entries of a column, and costs of 2^-18 (3.8e-6, below
# 1e-5): a ratio test that skips "tiny" pivot elements calls these bounded models unbounded, an optimality test
# with a loose tolerance stops before it has started (both reported by seeding sub-agents)
P20 = 1 << 20
P18 = 1 << 18
TINY = [
    {"id": "h_tiny_pivot", "sense": "max", "obj": [P20], "off": 0, "den": P20, "vars": [NN("v0")], "rows": [row([1], "le", 4)]},
    {"id": "h_tiny_pivot_two", "sense": "max", "obj": [P20, P20], "off": 0, "den": P20, "vars": [NN("v0"), NN("v1", hi=B(0, 2))],
     "rows": [row([1, 0], "le", 3), row([-P20, P20], "le", 2 * P20)]},
    {"id": "h_tiny_pivot_min", "sense": "min", "obj": [-P20, 0], "off": 0, "den": P20, "vars": [NN("v0"), NN("v1")], "rows": [row([1, 1], "le", 2), row([0, P20], "ge", 0)]},
    {"id": "h_tiny_cost", "sense": "max", "obj": [1], "off": 0, "den": P18, "vars": [NN("v0")], "rows": [row([P18], "le", 3 * P18)]},
    {"id": "h_tiny_cost_two", "sense": "min", "obj": [-1, -2], "off": 0, "den": P18, "vars": [NN("v0"), NN("v1")],
     "rows": [row([P18, P18], "le", 3 * P18), row([P18, -P18], "le", 2 * P18)]},
    {"id": "h_tiny_cost_bound", "sense": "max", "obj": [1, P18], "off": 0, "den": P18, "vars": [NN("v0", hi=B(0, 3)), NN("v1", hi=B(0, 1))], "rows": [row([P18, P18], "le", 4 * P18)]},
]


# model variables named like the columns the tableau path adds (the grammar allows $ names, and the
# compiler's own $max_0 is $m + ax_0): every entry point gives each variable exactly one value, or refuses
NAMED = [
    {"id": "h_name_slack", "sense": "max", "obj": [1, 2], "off": 0, "den": 1, "vars": [NN("$sl_1"), NN("y")], "rows": [dict(row([1, 1], "le", 4), name="a")]},
    {"id": "h_name_surplus", "sense": "min", "obj": [1, 2], "off": 0, "den": 1, "vars": [NN("$su_1"), NN("y")], "rows": [dict(row([1, 1], "ge", 2), name="a")]},
    {"id": "h_name_artificial", "sense": "min", "obj": [1, 2], "off": 0, "den": 1, "vars": [NN("$a_0"), NN("y")], "rows": [dict(row([1, 1], "eq", 2), name="a")]},
    {"id": "h_name_split", "sense": "max", "obj": [2, 1], "off": 0, "den": 1, "vars": [NN("$px"), R("x")], "rows": [row([1, 1], "le", 4), row([0, 1], "ge", -1)]},
    {"id": "h_name_split_both", "sense": "max", "obj": [2, 1, 1], "off": 0, "den": 1, "vars": [NN("$mx"), NN("$px"), NN("y")], "rows": [row([1, 1, 1], "le", 4)]},
    {"id": "h_name_aux_split", "sense": "min", "obj": [1, 0, 0], "off": 0, "den": 1, "vars": [R("$max_0"), R("ax_0", lo=B(0, -2), hi=B(0, 5)), R("y", lo=B(0, 1), hi=B(0, 3))],
     "rows": [row([1, -1, 0], "ge", 0), row([1, 0, -1], "ge", 0)]},
]


# tiny integer systems on which the interior point backend reports "Solved" at a feasible point of an
# UNBOUNDED model (a free variable next to a variable fixed by its range; reported by a seeding sub-agent)
CLARABEL_STOPS = [
    {"id": "h_clarabel_unbounded_fixed_var", "sense": "max", "obj": [3, 0, 0], "off": 0, "den": 1,
     "vars": [R("v0"), R("v1", lo=B(0, -1), hi=B(0, -1)), R("v2")], "rows": [row([-3, 0, 2], "eq", 2)]},
    {"id": "h_clarabel_unbounded_eighths", "sense": "max", "obj": [-1, 0, 0, -1], "off": 0, "den": 8,
     "vars": [NN("v0"), NN("v1"), R("v2"), R("v3")], "rows": [row([4, -2, 3, -4], "eq", -24), row([-1, -3, 0, 0], "ge", 0)]},
]


# contradictory equalities over free variables: the interior point backend stops with status Solved at values of
# size 1e19 whose products cancel to 0 in both rows; no entry point may return a solution
CONTRADICTIONS = [
    {"id": "h_contradiction_free", "sense": "min", "obj": [1, 0], "off": 0, "den": 1, "vars": [R("v0"), R("v1")], "rows": [row([1, 1], "eq", 1), row([1, 1], "eq", 2)]},
    {"id": "h_contradiction_free_scaled", "sense": "max", "obj": [0, -3], "off": 0, "den": 4, "vars": [R("v0"), R("v1")], "rows": [row([-1, -4], "eq", 2), row([1, 4], "eq", 2)]},
]


def cycling_cases():
    """The cycling / degenerate tableaux of spec/simplex/library.ndjson (Beale, Kuhn, ...) as linear
    models: the non-basic columns are non-negative variables, each basic (slack) column is a <= row.
    The anti-cycling fallback of the tableau solver is what lets it reach a verdict on them."""
    out = []
    for ln in open(os.path.join(core.SPEC, "simplex", "library.ndjson")):
        if not ln.strip():
            continue
        t = json.loads(ln)
        if max(abs(x) for r in t["a"] for x in r) > 500 or t["z"] != 0:
            continue                                   # (numbers too large for the 32-bit oracle arithmetic)
        basis = [b - 1 for b in t["basis"]]
        cols = [j for j in range(len(t["c"])) if j not in basis]
        out.append({"id": "h_cyc_" + t["id"], "sense": "min", "obj": [t["c"][j] for j in cols], "off": 0, "den": t["den"],
                    "vars": [{"name": f"v{k}", "kind": "nnreal", "lo": B(0, 0), "hi": B(1, 0)} for k in range(len(cols))],
                    "rows": [{"a": [t["a"][i][j] for j in cols], "cmp": "le", "b": t["b"][i], "name": ""} for i in range(len(t["a"]))]})
    return out


def gen(tier, seed):
    meta = {}
    cases = copy.deepcopy(HAND) + copy.deepcopy(DEGENERATE) + copy.deepcopy(SCALED) + copy.deepcopy(TINY) + copy.deepcopy(NAMED) + copy.deepcopy(CLARABEL_STOPS) + copy.deepcopy(CONTRADICTIONS) + cycling_cases()
    plan = [("Cont1.cfg", 350, None), ("Mixed1.cfg", 350, None), ("Cont2.cfg", 350, None), ("Mixed2.cfg", 450, None), ("Offset1.cfg", 200, None), ("Offset2.cfg", 300, None),
            ("SimMixed3.cfg", 250 if tier == "quick" else 6000, (3 if tier == "quick" else 40, 9)),
            ("SimCont3.cfg", 150 if tier == "quick" else 3000, (3 if tier == "quick" else 30, 9))]
    if tier == "thorough":
        plan = [(c, n * 40 if s is None else n, s) for c, n, s in plan]
    for cfg, n, sim in plan:
        cs, m = lpcases.family(cfg, "quick", seed, n, sim)
        meta[cfg[:-4]] = m
        cases += cs
    # every 5th multi-variable case again with the domain map filled in reverse column order
    rev = []
    for i, c in enumerate(cases):
        if i % 5 == seed % 5 and len(c.get("vars", [])) >= 2:
            r = copy.deepcopy(c)
            r["id"] = c["id"] + "_rev"
            r["domorder"] = "rev"
            rev.append(r)
    cases += rev
    # every 7th case also as a satisfy model
    extra = []
    for i, c in enumerate(cases):
        if i % 7 == seed % 7 and c.get("vars"):
            s = copy.deepcopy(c)
            s["id"] = c["id"] + "_sat"
            s["sense"] = "sat"
            extra.append(s)
    return cases + extra, meta


def signature(ev, reason):
    # (the model is part of the signature: a known finding is one input, another model with the same
    # symptom is still reported)
    model = json.dumps({k: ev.get(k) for k in ("sense", "obj", "off", "den", "vars", "rows")}, sort_keys=True, separators=(",", ":"))
    return f"entry={ev.get('entry')} {reason} model={model}"


def check(prop, tier, seed, replay=None):
    o = core.Outcome(prop, tier, seed)
    core.build_harness()
    d = core.rundir(prop)
    meta = {}
    if replay:
        c = json.load(open(replay))
        entries = [c["entry"]] if "entry" in c else None
        for k in ("entry", "out", "sol", "err"):
            c.pop(k, None)
        c["id"] = c["id"].split(":")[0]
        cases = [c]
    else:
        cases, meta = gen(tier, seed)
        entries = None
    events = core.rv_parallel("solve", cases, prop, extra=(["--entries", ",".join(entries)] if entries else []), procs=12)
    cost = [1 + 4 ** sum(1 for v in e["vars"] if v["kind"] in ("bool", "int")) * (1 + len(e["rows"])) for e in events]
    v = core.validate(SPEC_DIR, "SolveTrace.tla", "SolveTrace.cfg", events, prop, prop, chunks=12, cost=cost)
    byid = {e["id"]: e for e in events}
    for r in v.rejects:
        if r[1] != prop:
            continue
        ev = byid.get(r[2], {})
        case = {k: ev.get(k) for k in ("id", "entry", "sense", "obj", "off", "den", "vars", "rows")}
        got = ev.get("sol", ev.get("err"))
        o.violation(signature(ev, r[3]), case, f"{r[3]} [{ev.get('entry')}] model={json.dumps({k: case[k] for k in ('sense','obj','off','den','vars','rows')})[:400]} got={json.dumps(got)[:300]}")
    stats = [s for s in v.stats if s[2] != "notaccepted"]
    sol = sum(1 for s in stats if s[2] == "solution")
    verd = {}
    for s in stats:
        verd[s[3]] = verd.get(s[3], 0) + 1
    per_entry = {}
    for e in events:
        k = e["entry"] + ":" + (e["out"] if e["out"] != "error" else "error/" + e["err"]["kind"])
        per_entry[k] = per_entry.get(k, 0) + 1
    samples = []
    for e in events:
        if e["out"] == "solution" and len(e["rows"]) >= 2 and len(samples) < 3:
            samples.append({"id": e["id"], "model": {k: e[k] for k in ("sense", "obj", "off", "den", "vars", "rows")}, "returned": e["sol"]})
    models = len({e["id"].split(":")[0] for e in events})
    o.level = "model_checking"
    o.coverage = {
        "states": v.distinct + sum(m.get("gen_states", 0) for m in meta.values()),
        "transitions": v.generated + sum(m.get("gen_transitions", 0) for m in meta.values()),
        "traces_validated_against_impl": len(stats),
        "samples": samples or [{"note": "none"}],
        "evaluations": len(events),
        "distinct_nontrivial": sol if prop == "C04" else sum(1 for s in stats if s[3] in ("opt", "inf", "unb")),
        "rule": "one event = one solver entry point on one LpGen model (exhaustive families sampled by seeded stride, larger models by TLC simulation, hand-written corner models);"
                + (" non-trivial = call that returned a solution (the point is judged)" if prop == "C04"
                   else " non-trivial = accepted call whose verdict was compared with the exact verdict (FM + enumeration)"),
        "exhaustive": False,
        "models": models,
        "outcomes_by_entry": per_entry,
        "oracle_verdicts": verd,
        "families": meta,
        "unverifiable_overflow": v.overflow_ids[:10],
    }
    o.assumptions = ["float answers are snapped to the unique rational with denominator <= 500 within 1e-6, otherwise compared at 1e-3",
                     "integer variables have the small ranges the generator declares (enumerated by the oracle)"]
    return o.finish()
