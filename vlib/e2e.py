"""C03: end-to-end answers are right (E2ETrace.tla): generated programs over enumerable
domains, rendered with minimal parentheses, solved by RoocSolver + auto_solver."""
import json
import os

from . import core, lin, render

SPEC_DIR = os.path.join(core.SPEC, "e2e")


def enumerable(c):
    """The same expressions over enumerable domains: a real declaration becomes the integer range
    inside it (unbounded sides are cut at -2 / 3), so that the answer can be judged by enumeration."""
    if not c.get("dom") or c.get("fam") == "E" or c["id"].startswith("E") or '"d": 0' in json.dumps(c):      # (family E: programs that must be rejected, and infinite constants: judged by C08)
        return None
    c = json.loads(json.dumps(c))
    for d in c["dom"]:
        if d["kind"] == "bool":
            continue
        lo = -(-d["lo"]["n"] // d["lo"]["d"]) if d["lo"]["inf"] == 0 else -2
        hi = d["hi"]["n"] // d["hi"]["d"] if d["hi"]["inf"] == 0 else 3
        if d["kind"] == "nnreal":
            lo = max(lo, 0)
        lo, hi = max(lo, -4), min(hi, 4)
        if lo > hi:
            return None
        d.update(kind="int", lo={"inf": 0, "n": lo, "d": 1}, hi={"inf": 0, "n": hi, "d": 1})
    c["id"] = "K" + c["id"]
    return c


def check(tier, seed, replay=None):
    prop = "C03"
    o = core.Outcome(prop, tier, seed)
    core.build_harness()
    meta = {}
    if replay:
        c = json.load(open(replay))
        cases = [{k: c[k] for k in ("id", "sense", "obj", "cons", "dom", "text", "may_reject", "realdom") if k in c}]
    else:
        cs, g, d = core.gen_cases(lin.SPEC_DIR, "ModelGen.tla", "GenG.cfg", "genG", workers=8)
        for i, c in enumerate(cs):
            c["id"] = f"G{i}"
        meta["G"] = {"cases": len(cs), "gen_states": d, "gen_transitions": g}
        if tier == "quick":
            k = max(1, len(cs) // 1500)
            cs = cs[seed % k::k]
        nsim = 25 if tier == "quick" else 600
        hs, g2, d2 = core.gen_cases(lin.SPEC_DIR, "ModelGen.tla", "GenH.cfg", "genH", workers=1,
                                    extra=["-simulate", f"num={nsim}", "-depth", "6", "-seed", str(seed)], cache_key=[nsim, seed])
        for i, c in enumerate(hs):
            c["id"] = f"H{seed}_{i}"
        meta["H"] = {"cases": len(hs), "simulated_behaviours": nsim}
        if tier == "quick":
            hs = hs[:1200]
        # corpus K (the linearization families A-F: scales, divisions, nested abs / min / max, logic) over enumerable domains
        ks, kmeta = lin.gen_all("quick", seed, per_family_quick=(250 if tier == "quick" else 6000))
        # (the regression models that are refused on purpose - non-linear or undefined operands, API-built
        # models with undeclared variables - are inputs of C08, not programs with an answer)
        ks = [c for c in ks if not str(c.get("id", "")).startswith(("R_exact_", "R_api_"))]
        ks = [k_ for k_ in (enumerable(c) for c in ks) if k_]
        for f, m in kmeta.items():
            meta["K:" + f] = m
        meta["K:enumerable"] = {"cases": len(ks)}
        # models around every ExprGen tree (every operator over every pair of operand kinds, chains of equal
        # operators such as a -> b -> c): the tree as objective, as one side of a row, or as a logic assertion
        from . import doors
        # (programs the static typing refuses are not texts of the language: C16 judges them, not C03)
        os_ = [m for m in doors.operand_models(tier, seed, meta, assoc_all=True) if not m.get("illtyped")]
        for c in os_:
            c["may_reject"] = True
        # family R: every third G / H model again with its integer variables declared as bounded Reals
        rs = []
        for i, c in enumerate(cs + hs):
            if i % 3 == seed % 3 and any(d["kind"] == "int" for d in c["dom"]):
                r = json.loads(json.dumps(c))
                r["id"] = c["id"] + "_r"
                r["realdom"] = True
                for d in r["dom"]:
                    if d["kind"] == "int":
                        d["kind"] = "real"
                rs.append(r)
        meta["R"] = {"cases": len(rs)}
        cases = []
        for i, c in enumerate(cs + hs + ks + os_ + rs):
            style = (i + seed) % 2
            c["text"] = render.program_min(c, style=style, named=(i % 3 == 0))
            c["style"] = style
            cases.append(c)
    events = core.rv_parallel("e2e", cases, prop, procs=10)
    v = core.validate(SPEC_DIR, "E2ETrace.tla", "E2ETrace.cfg", events, prop, prop, chunks=12)
    byid = {e["id"]: e for e in events}
    for r in v.rejects:
        ev = byid.get(r[2], {})
        o.violation(f"{r[3]}:{ev.get('text')}", {k: ev.get(k) for k in ("id", "sense", "obj", "cons", "dom", "text", "may_reject", "realdom") if k in ev},
                    f"{r[3]}\n{ev.get('text')}\n-> {ev.get('out')} {ev.get('kind','')} {ev.get('why','')[:200]} point={[(p['name'], p['v']['n'], p['v']['d']) for p in ev.get('point', [])]} value={ev.get('value', {}).get('n')}/{ev.get('value', {}).get('d')}")
    outs = {}
    for s in v.stats:
        outs[s[2]] = outs.get(s[2], 0) + 1
    samples = [{"text": e["text"], "out": e["out"], "value": [e["value"]["n"], e["value"]["d"]]} for e in events[::max(1, len(events) // 3)]][:3]
    o.level = "exploration"
    o.coverage = {
        "evaluations": len(events),
        "distinct_nontrivial": sum(1 for s in v.stats if 0 < s[4] < s[3]),
        "rule": "one event = one program: abstract model from ModelGen family G (exhaustive, one constraint) / H (TLC simulation, two constraints) / the linearization families A-F restricted to integer and Boolean"
                " domains, rendered to text with minimal parentheses (keyword or symbolic spelling, implicit multiplication, named rows) and solved by the"
                " one-shot entry point; judged by complete enumeration of the declared domains; non-trivial = some but not all assignments satisfy the text",
        "samples": samples,
        "outcomes": outs,
        "states": v.distinct, "transitions": v.generated,
        "families": meta,
        "unverifiable_overflow_count": len(v.overflow_ids),
    }
    o.assumptions = ["domains are integer ranges and Booleans (enumerated completely); bounded Real declarations are covered by C01/C02/C05 compositionally, not here",
                     "the text renderer (driver) follows the documented precedence table independently of the implementation"]
    return o.finish()
