//! Seeded random generators of JSON cases (same format the TLA+ generator
//! machines print).  Input selection only: what a case *means* is decided by
//! the specifications.

use rand::rngs::StdRng;
use rand::{Rng, SeedableRng};
use serde_json::{Value, json};

pub struct G {
    pub rng: StdRng,
}

fn num(n: i64, d: i64) -> Value {
    json!({"op":"num","n":n,"d":d})
}
fn var(n: &str) -> Value {
    json!({"op":"var","name":n})
}
fn un(op: &str, a: Value) -> Value {
    json!({"op":op,"a":a})
}
fn bin(op: &str, a: Value, b: Value) -> Value {
    json!({"op":op,"a":a,"b":b})
}
fn nary(op: &str, args: Vec<Value>) -> Value {
    json!({"op":op,"args":args})
}
fn bnd(inf: i64, n: i64, d: i64) -> Value {
    json!({"inf":inf,"n":n,"d":d})
}

pub struct VarDecl {
    pub name: String,
    pub kind: &'static str,
    pub lo: Value,
    pub hi: Value,
}

impl G {
    pub fn new(seed: u64) -> Self {
        G {
            rng: StdRng::seed_from_u64(seed),
        }
    }
    fn pick<'a, T>(&mut self, xs: &'a [T]) -> &'a T {
        &xs[self.rng.gen_range(0..xs.len())]
    }
    fn konst(&mut self) -> Value {
        let n = *self.pick(&[-3, -2, -1, 0, 1, 2, 3, 1, 2, 5, -5]);
        let d = *self.pick(&[1, 1, 1, 2, 4]);
        num(n, d)
    }
    fn scale(&mut self) -> Value {
        let n = *self.pick(&[-2, -1, 2, 3, -3, 1, 1, -1]);
        let d = *self.pick(&[1, 1, 2]);
        num(n, d)
    }

    /// Logic-valued expression over Boolean variables.
    pub fn logic(&mut self, depth: u32, bools: &[String]) -> Value {
        if depth == 0 || bools.is_empty() || self.rng.gen_bool(0.25) {
            if bools.is_empty() || self.rng.gen_bool(0.08) {
                return num(*self.pick(&[0, 1]), 1);
            }
            let v = var(&self.pick(bools).clone());
            return if self.rng.gen_bool(0.2) { un("not", v) } else { v };
        }
        match self.rng.gen_range(0..12) {
            0 => un("not", self.logic(depth - 1, bools)),
            1 => un("u_not", self.logic(depth - 1, bools)),
            2 | 3 => {
                let n = self.rng.gen_range(1..=3);
                nary("and", (0..n).map(|_| self.logic(depth - 1, bools)).collect())
            }
            4 | 5 => {
                let n = self.rng.gen_range(1..=3);
                nary("or", (0..n).map(|_| self.logic(depth - 1, bools)).collect())
            }
            6 => bin("xor", self.logic(depth - 1, bools), self.logic(depth - 1, bools)),
            7 => bin("implies", self.logic(depth - 1, bools), self.logic(depth - 1, bools)),
            8 => bin("iff", self.logic(depth - 1, bools), self.logic(depth - 1, bools)),
            9 => {
                let op = *self.pick(&["b_and", "b_or"]);
                bin(op, self.logic(depth - 1, bools), self.logic(depth - 1, bools))
            }
            10 => {
                let op = *self.pick(&["b_xor", "b_implies", "b_iff"]);
                bin(op, self.logic(depth - 1, bools), self.logic(depth - 1, bools))
            }
            _ => self.logic(depth - 1, bools),
        }
    }

    /// Numeric expression, linear in the variables (scales are constants).
    pub fn numeric(&mut self, depth: u32, nums: &[String], bools: &[String]) -> Value {
        if depth == 0 || self.rng.gen_bool(0.2) {
            let all: Vec<&String> = nums.iter().chain(bools.iter()).collect();
            if all.is_empty() || self.rng.gen_bool(0.25) {
                return self.konst();
            }
            return var(all[self.rng.gen_range(0..all.len())]);
        }
        match self.rng.gen_range(0..16) {
            0 | 1 => bin(
                "add",
                self.numeric(depth - 1, nums, bools),
                self.numeric(depth - 1, nums, bools),
            ),
            2 | 3 => bin(
                "sub",
                self.numeric(depth - 1, nums, bools),
                self.numeric(depth - 1, nums, bools),
            ),
            4 => bin("mul", self.scale(), self.numeric(depth - 1, nums, bools)),
            5 => bin("mul", self.numeric(depth - 1, nums, bools), self.scale()),
            6 => {
                let d = *self.pick(&[-2, 2, 4, -1, -4]);
                let dd = if self.rng.gen_bool(0.15) { num(1, 2) } else { num(d, 1) };
                bin("div", self.numeric(depth - 1, nums, bools), dd)
            }
            7 => un("neg", self.numeric(depth - 1, nums, bools)),
            8 | 9 => un("abs", self.numeric(depth - 1, nums, bools)),
            10 | 11 => {
                let n = self.rng.gen_range(1..=3);
                nary(
                    "min",
                    (0..n).map(|_| self.numeric(depth - 1, nums, bools)).collect(),
                )
            }
            12 | 13 => {
                let n = self.rng.gen_range(1..=3);
                nary(
                    "max",
                    (0..n).map(|_| self.numeric(depth - 1, nums, bools)).collect(),
                )
            }
            14 if !bools.is_empty() => self.logic(depth - 1, bools),
            _ => self.numeric(depth - 1, nums, bools),
        }
    }

    pub fn decl(&mut self, name: &str) -> VarDecl {
        let name = name.to_string();
        match self.rng.gen_range(0..10) {
            0 | 1 | 2 => VarDecl { name, kind: "bool", lo: bnd(0, 0, 1), hi: bnd(0, 1, 1) },
            3 | 4 => {
                let lo = self.rng.gen_range(-2..=1);
                let hi = lo + self.rng.gen_range(0..=3);
                VarDecl { name, kind: "int", lo: bnd(0, lo, 1), hi: bnd(0, hi, 1) }
            }
            5 | 6 => {
                let lo = self.rng.gen_range(-4..=2);
                let hi = lo + self.rng.gen_range(0..=6);
                VarDecl { name, kind: "real", lo: bnd(0, lo, 2), hi: bnd(0, hi, 2) }
            }
            7 => {
                let hi = self.rng.gen_range(0..=3);
                VarDecl { name, kind: "nnreal", lo: bnd(0, 0, 1), hi: bnd(0, hi, 1) }
            }
            8 => VarDecl { name, kind: "real", lo: bnd(-1, 0, 1), hi: bnd(1, 0, 1) },
            _ => VarDecl { name, kind: "nnreal", lo: bnd(0, 0, 1), hi: bnd(1, 0, 1) },
        }
    }

    /// A complete model case.
    pub fn model(&mut self, id: String, depth: u32, max_vars: usize, max_cons: usize) -> Value {
        let nv = self.rng.gen_range(1..=max_vars);
        let names = ["x", "y", "z", "w"];
        let decls: Vec<VarDecl> = (0..nv).map(|i| self.decl(names[i])).collect();
        let bools: Vec<String> = decls.iter().filter(|d| d.kind == "bool").map(|d| d.name.clone()).collect();
        let nums: Vec<String> = decls.iter().filter(|d| d.kind != "bool").map(|d| d.name.clone()).collect();
        let mut cons = vec![];
        // unbounded reals get bounding rows most of the time so exact lowerings can compile
        for d in &decls {
            let lo_inf = d.lo["inf"].as_i64().unwrap() != 0;
            let hi_inf = d.hi["inf"].as_i64().unwrap() != 0;
            if (lo_inf || hi_inf) && self.rng.gen_bool(0.8) {
                let style = self.rng.gen_range(0..4);
                if hi_inf {
                    let k = self.rng.gen_range(0..=3);
                    cons.push(match style {
                        0 => json!({"lhs":var(&d.name),"cmp":"le","rhs":num(k,1),"assert":false,"name":""}),
                        1 => json!({"lhs":bin("mul",num(-2,1),var(&d.name)),"cmp":"ge","rhs":num(-2*k,1),"assert":false,"name":""}),
                        2 => json!({"lhs":num(k,1),"cmp":"ge","rhs":var(&d.name),"assert":false,"name":""}),
                        _ => json!({"lhs":bin("add",var(&d.name),num(1,1)),"cmp":"le","rhs":num(k+1,1),"assert":false,"name":""}),
                    });
                }
                if lo_inf {
                    let k = self.rng.gen_range(0..=3);
                    cons.push(match style {
                        0 => json!({"lhs":var(&d.name),"cmp":"ge","rhs":num(-k,1),"assert":false,"name":""}),
                        1 => json!({"lhs":bin("mul",num(-2,1),var(&d.name)),"cmp":"le","rhs":num(2*k,1),"assert":false,"name":""}),
                        2 => json!({"lhs":un("neg",var(&d.name)),"cmp":"le","rhs":num(k,1),"assert":false,"name":""}),
                        _ => json!({"lhs":bin("div",var(&d.name),num(2,1)),"cmp":"ge","rhs":num(-k,2),"assert":false,"name":""}),
                    });
                }
            }
        }
        let nc = self.rng.gen_range(1..=max_cons);
        for i in 0..nc {
            let name = if self.rng.gen_bool(0.3) { format!("r{}", i % 2) } else { String::new() };
            if !bools.is_empty() && self.rng.gen_bool(0.3) {
                cons.push(json!({"lhs":self.logic(depth, &bools),"assert":true,"name":name,"cmp":"eq","rhs":num(1,1)}));
            } else {
                let cmp = *self.pick(&["le", "ge", "eq", "le", "ge", "le", "ge"]);
                // most right-hand sides lean towards satisfiable so that both
                // feasible and infeasible samples exist
                let rhs = if self.rng.gen_bool(0.55) {
                    let k = self.rng.gen_range(0..=6);
                    match cmp { "le" => num(k, 2), "ge" => num(-k, 2), _ => num(k - 3, 2) }
                } else if self.rng.gen_bool(0.6) { self.konst() } else { self.numeric(depth.saturating_sub(1), &nums, &bools) };
                cons.push(json!({"lhs":self.numeric(depth, &nums, &bools),"cmp":cmp,"rhs":rhs,"assert":false,"name":name}));
            }
        }
        let sense = *self.pick(&["min", "max", "min", "max", "sat"]);
        let obj = if sense == "sat" { num(0, 1) } else { self.numeric(depth, &nums, &bools) };
        let dom: Vec<Value> = decls
            .iter()
            .map(|d| json!({"name":d.name,"kind":d.kind,"lo":d.lo,"hi":d.hi}))
            .collect();
        json!({"id":id,"sense":sense,"obj":obj,"cons":cons,"dom":dom})
    }
}
