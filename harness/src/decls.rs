//! C16 (declaration doors): one declaration of Decls.tla through the `vars!` macro, the builder
//! methods and the text, each reported as the list of declared (name, kind, range).

use crate::conv::vtype_json;
use indexmap::IndexMap;
use rooc::{ModelBuilder, RoocParser, VariableType};
use serde_json::{Value, json};
use std::panic::{AssertUnwindSafe, catch_unwind};

/// What a door declared (the Model's domain); the door refuses the declaration when building the
/// Model or compiling it to a linear model fails.
fn decl_of(model: &rooc::model_transformer::Model) -> Value {
    if let Err(e) = rooc::Linearizer::linearize(model.clone()) {
        return json!({"out":"linearization_error","decl":[],"why":e.to_string()});
    }
    let mut out = vec![];
    for (name, dv) in model.domain() {
        match vtype_json(name, dv.get_type()) {
            Ok(v) => out.push(v),
            Err(_) => out.push(json!({"name":name,"kind":"?","lo":{"inf":0,"n":0,"d":1},"hi":{"inf":0,"n":0,"d":1}})),
        }
    }
    json!({"out":"ok","decl":out})
}

fn guarded(f: impl FnOnce() -> Value) -> Value {
    catch_unwind(AssertUnwindSafe(f)).unwrap_or_else(|_| json!({"out":"panic","decl":[]}))
}

pub fn decls_event(case: &Value) -> Value {
    let mut ev = case.clone();
    let kind = case["kind"].as_str().unwrap().to_string();
    let array = case["form"] == "array";
    let n = case["n"].as_u64().unwrap() as usize;
    let (lo, hi) = (case["lo"].as_i64().unwrap(), case["hi"].as_i64().unwrap());
    let (lof, hif) = (lo as f64, hi as f64);
    let (loi, hii) = (lo as i32, hi as i32);
    // ---- M: the vars! macro (identifiers are fixed at compile time: one arm per kind and form) ----
    let k = kind.clone();
    ev["M"] = guarded(|| {
        let mut mb = ModelBuilder::new();
        match (k.as_str(), array) {
            ("bool", false) => { rooc::vars! { mb => x: bool; } let _ = x; }
            ("bool", true) => { rooc::vars! { mb => x[n]: bool; } let _ = x; }
            ("int", false) => { rooc::vars! { mb => x: int(loi, hii); } let _ = x; }
            ("int", true) => { rooc::vars! { mb => x[n]: int(loi, hii); } let _ = x; }
            ("real", false) => { rooc::vars! { mb => x: real(lof, hif); } let _ = x; }
            ("real", true) => { rooc::vars! { mb => x[n]: real(lof, hif); } let _ = x; }
            ("realfree", false) => { rooc::vars! { mb => x: real; } let _ = x; }
            ("realfree", true) => { rooc::vars! { mb => x[n]: real; } let _ = x; }
            ("nnreal", false) => { rooc::vars! { mb => x: nonneg(lof, hif); } let _ = x; }
            ("nnreal", true) => { rooc::vars! { mb => x[n]: nonneg(lof, hif); } let _ = x; }
            ("nnrealfree", false) => { rooc::vars! { mb => x: nonneg; } let _ = x; }
            ("nnrealfree", true) => { rooc::vars! { mb => x[n]: nonneg; } let _ = x; }
            (o, _) => panic!("kind {o}"),
        }
        decl_of(&mb.into_model())
    });
    // ---- F: the methods ----
    let k = kind.clone();
    ev["F"] = guarded(|| {
        let mut mb = ModelBuilder::new();
        let t = match k.as_str() {
            "bool" => VariableType::bool(),
            "int" => VariableType::integer_range(loi, hii),
            "real" => VariableType::Real(lof, hif),
            "realfree" => VariableType::real(),
            "nnreal" => VariableType::NonNegativeReal(lof, hif),
            "nnrealfree" => VariableType::non_negative_real(),
            o => panic!("kind {o}"),
        };
        if array {
            mb.add_vars("x", n, t);
        } else {
            mb.add_var("x", t);
        }
        decl_of(&mb.into_model())
    });
    // ---- T: the text ----
    ev["T"] = guarded(|| match RoocParser::new(case["text"].as_str().unwrap().to_string()).parse_and_transform(vec![], &IndexMap::new()) {
        Ok(m) => decl_of(&m),
        Err(e) => json!({"out":"front_error","decl":[],"why":e}),
    });
    ev
}
