//! Marshalling between rooc values and the integer-only JSON the TLA+ trace
//! specifications read.  No property logic lives here: numbers are converted
//! exactly or the case is flagged `unverifiable`.

use indexmap::IndexMap;
use rooc::model_transformer::{Constraint, DomainVariable, Exp, Model, Objective};
use rooc::{BinOp, Comparison, InputSpan, LinearModel, OptimizationType, UnOp, VariableType};
use serde_json::{Value, json};

#[derive(Debug)]
pub struct Unverifiable(pub String);

pub type R<T> = Result<T, Unverifiable>;

/// Largest magnitude let through to TLC (32-bit integers, products in FM).
pub const MAX_INT: i64 = 1 << 22;

/// Exact conversion of a finite f64 to n / 2^k.
pub fn dyadic(x: f64) -> R<(i64, i64)> {
    if !x.is_finite() {
        return Err(Unverifiable(format!("non-finite {x}")));
    }
    let mut d: i64 = 1;
    let mut v = x;
    let mut k = 0;
    while v.fract() != 0.0 {
        v *= 2.0;
        d *= 2;
        k += 1;
        if k > 20 {
            return Err(Unverifiable(format!("not dyadic within 2^-20: {x}")));
        }
    }
    if v.abs() >= MAX_INT as f64 {
        return Err(Unverifiable(format!("magnitude too large: {x}")));
    }
    Ok((v as i64, d))
}

pub fn num_json(x: f64) -> R<Value> {
    if x == f64::INFINITY {
        return Ok(json!({"op":"num","n":1,"d":0}));
    }
    if x == f64::NEG_INFINITY {
        return Ok(json!({"op":"num","n":-1,"d":0}));
    }
    if x.is_nan() {
        return Ok(json!({"op":"num","n":0,"d":0}));
    }
    let (n, d) = dyadic(x)?;
    Ok(json!({"op":"num","n":n,"d":d}))
}

/// Bound as {inf,n,d}; infinities are symbolic.
pub fn bound_json(x: f64) -> R<Value> {
    if x == f64::INFINITY {
        return Ok(json!({"inf":1,"n":0,"d":1}));
    }
    if x == f64::NEG_INFINITY {
        return Ok(json!({"inf":-1,"n":0,"d":1}));
    }
    if x.is_nan() {
        return Err(Unverifiable("NaN bound".into()));
    }
    let (n, d) = dyadic(x)?;
    Ok(json!({"inf":0,"n":n,"d":d}))
}

pub fn binop_name(op: &BinOp) -> &'static str {
    match op {
        BinOp::Add => "add",
        BinOp::Sub => "sub",
        BinOp::Mul => "mul",
        BinOp::Div => "div",
        BinOp::And => "b_and",
        BinOp::Or => "b_or",
        BinOp::Xor => "b_xor",
        BinOp::Implies => "b_implies",
        BinOp::Iff => "b_iff",
    }
}

pub fn exp_to_json(e: &Exp) -> R<Value> {
    Ok(match e {
        Exp::Number(x) => num_json(*x)?,
        Exp::Variable(n) => json!({"op":"var","name":n}),
        Exp::Abs(a) => json!({"op":"abs","a":exp_to_json(a)?}),
        Exp::Not(a) => json!({"op":"not","a":exp_to_json(a)?}),
        Exp::UnOp(UnOp::Neg, a) => json!({"op":"neg","a":exp_to_json(a)?}),
        Exp::UnOp(UnOp::Not, a) => json!({"op":"u_not","a":exp_to_json(a)?}),
        Exp::Min(v) => json!({"op":"min","args":seq_json(v)?}),
        Exp::Max(v) => json!({"op":"max","args":seq_json(v)?}),
        Exp::And(v) => json!({"op":"and","args":seq_json(v)?}),
        Exp::Or(v) => json!({"op":"or","args":seq_json(v)?}),
        Exp::Xor(a, b) => json!({"op":"xor","a":exp_to_json(a)?,"b":exp_to_json(b)?}),
        Exp::Implies(a, b) => json!({"op":"implies","a":exp_to_json(a)?,"b":exp_to_json(b)?}),
        Exp::Iff(a, b) => json!({"op":"iff","a":exp_to_json(a)?,"b":exp_to_json(b)?}),
        Exp::BinOp(op, a, b) => {
            json!({"op":binop_name(op),"a":exp_to_json(a)?,"b":exp_to_json(b)?})
        }
    })
}

fn seq_json(v: &[Exp]) -> R<Vec<Value>> {
    v.iter().map(exp_to_json).collect()
}

pub fn json_to_exp(v: &Value) -> Exp {
    let op = v["op"].as_str().expect("op");
    let a = || Box::new(json_to_exp(&v["a"]));
    let b = || Box::new(json_to_exp(&v["b"]));
    let args = || {
        v["args"]
            .as_array()
            .expect("args")
            .iter()
            .map(json_to_exp)
            .collect::<Vec<_>>()
    };
    match op {
        "num" => match v.get("f") {
            // magnitudes beyond small rationals are given as floats (rendering checks)
            Some(f) => Exp::Number(f.as_f64().unwrap()),
            None => Exp::Number(v["n"].as_i64().unwrap() as f64 / v["d"].as_i64().unwrap() as f64),
        },
        "var" => Exp::Variable(v["name"].as_str().unwrap().to_string()),
        "abs" => Exp::Abs(a()),
        "not" => Exp::Not(a()),
        "neg" => Exp::UnOp(UnOp::Neg, a()),
        "u_not" => Exp::UnOp(UnOp::Not, a()),
        "min" => Exp::Min(args()),
        "max" => Exp::Max(args()),
        "and" => Exp::And(args()),
        "or" => Exp::Or(args()),
        "xor" => Exp::Xor(a(), b()),
        "implies" => Exp::Implies(a(), b()),
        "iff" => Exp::Iff(a(), b()),
        "add" => Exp::BinOp(BinOp::Add, a(), b()),
        "sub" => Exp::BinOp(BinOp::Sub, a(), b()),
        "mul" => Exp::BinOp(BinOp::Mul, a(), b()),
        "div" => Exp::BinOp(BinOp::Div, a(), b()),
        "b_and" => Exp::BinOp(BinOp::And, a(), b()),
        "b_or" => Exp::BinOp(BinOp::Or, a(), b()),
        "b_xor" => Exp::BinOp(BinOp::Xor, a(), b()),
        "b_implies" => Exp::BinOp(BinOp::Implies, a(), b()),
        "b_iff" => Exp::BinOp(BinOp::Iff, a(), b()),
        other => panic!("unknown op {other}"),
    }
}

pub fn collect_vars(e: &Exp, out: &mut Vec<String>) {
    match e {
        Exp::Number(_) => {}
        Exp::Variable(n) => out.push(n.clone()),
        Exp::Abs(a) | Exp::Not(a) | Exp::UnOp(_, a) => collect_vars(a, out),
        Exp::Min(v) | Exp::Max(v) | Exp::And(v) | Exp::Or(v) => {
            v.iter().for_each(|e| collect_vars(e, out))
        }
        Exp::Xor(a, b) | Exp::Implies(a, b) | Exp::Iff(a, b) | Exp::BinOp(_, a, b) => {
            collect_vars(a, out);
            collect_vars(b, out);
        }
    }
}

pub fn cmp_name(c: &Comparison) -> &'static str {
    match c {
        Comparison::LessOrEqual => "le",
        Comparison::GreaterOrEqual => "ge",
        Comparison::Equal => "eq",
        Comparison::Less => "lt",
        Comparison::Greater => "gt",
    }
}

pub fn cmp_from(s: &str) -> Comparison {
    match s {
        "le" => Comparison::LessOrEqual,
        "ge" => Comparison::GreaterOrEqual,
        "eq" => Comparison::Equal,
        "lt" => Comparison::Less,
        "gt" => Comparison::Greater,
        o => panic!("cmp {o}"),
    }
}

pub fn sense_name(o: &OptimizationType) -> &'static str {
    match o {
        OptimizationType::Min => "min",
        OptimizationType::Max => "max",
        OptimizationType::Satisfy => "sat",
    }
}

pub fn sense_from(s: &str) -> OptimizationType {
    match s {
        "min" => OptimizationType::Min,
        "max" => OptimizationType::Max,
        "sat" => OptimizationType::Satisfy,
        o => panic!("sense {o}"),
    }
}

pub fn bound_from(v: &Value) -> f64 {
    match v["inf"].as_i64().unwrap() {
        1 => f64::INFINITY,
        -1 => f64::NEG_INFINITY,
        _ => v["n"].as_i64().unwrap() as f64 / v["d"].as_i64().unwrap() as f64,
    }
}

pub fn vtype_from(v: &Value) -> VariableType {
    match v["kind"].as_str().unwrap() {
        "bool" => VariableType::Boolean,
        "int" => VariableType::IntegerRange(
            bound_from(&v["lo"]) as i32,
            bound_from(&v["hi"]) as i32,
        ),
        "real" => VariableType::Real(bound_from(&v["lo"]), bound_from(&v["hi"])),
        "nnreal" => VariableType::NonNegativeReal(bound_from(&v["lo"]), bound_from(&v["hi"])),
        o => panic!("kind {o}"),
    }
}

pub fn vtype_json(name: &str, t: &VariableType) -> R<Value> {
    Ok(match t {
        VariableType::Boolean => {
            json!({"name":name,"kind":"bool","lo":bound_json(0.0)?,"hi":bound_json(1.0)?})
        }
        VariableType::IntegerRange(a, b) => {
            json!({"name":name,"kind":"int","lo":bound_json(*a as f64)?,"hi":bound_json(*b as f64)?})
        }
        VariableType::Real(a, b) => {
            json!({"name":name,"kind":"real","lo":bound_json(*a)?,"hi":bound_json(*b)?})
        }
        VariableType::NonNegativeReal(a, b) => {
            json!({"name":name,"kind":"nnreal","lo":bound_json(*a)?,"hi":bound_json(*b)?})
        }
    })
}

/// Build a `Model` from a JSON case {sense,obj,cons[{lhs,cmp,rhs,assert,name}],dom[{name,kind,lo,hi}]}.
/// Usage counts are set the way the transformer does: one per occurrence.
pub fn model_from_case(case: &Value) -> Model {
    let obj = json_to_exp(&case["obj"]);
    let mut used = vec![];
    collect_vars(&obj, &mut used);
    let mut cons = vec![];
    for c in case["cons"].as_array().unwrap() {
        let lhs = json_to_exp(&c["lhs"]);
        collect_vars(&lhs, &mut used);
        let name = c["name"].as_str().unwrap_or("").to_string();
        if c["assert"].as_bool().unwrap_or(false) {
            cons.push(Constraint::new_logic_assertion(lhs, name));
        } else {
            let rhs = json_to_exp(&c["rhs"]);
            collect_vars(&rhs, &mut used);
            cons.push(Constraint::new(
                lhs,
                cmp_from(c["cmp"].as_str().unwrap()),
                rhs,
                name,
            ));
        }
    }
    let mut dom: IndexMap<String, DomainVariable> = IndexMap::new();
    for d in case["dom"].as_array().unwrap() {
        let name = d["name"].as_str().unwrap().to_string();
        let mut dv = DomainVariable::new(vtype_from(d), InputSpan::default());
        // (`nomark`: the model is built the way a user of the Model API may build it, without usage marks)
        for u in &used {
            if *u == name && case["nomark"] != true {
                dv.increment_usage();
            }
        }
        dom.insert(name, dv);
    }
    Model::new(
        Objective::new(sense_from(case["sense"].as_str().unwrap()), obj),
        cons,
        dom,
    )
}

/// Source-side JSON of a model (what the specification interprets).
pub fn model_json(m: &Model) -> R<Value> {
    let mut cons = vec![];
    for c in m.constraints() {
        cons.push(json!({
            "lhs": exp_to_json(c.lhs())?,
            "cmp": cmp_name(&c.constraint_type()),
            "rhs": exp_to_json(c.rhs())?,
            "assert": c.is_logic_assertion(),
            "name": c.name(),
        }));
    }
    let mut dom = vec![];
    // "used" = occurs in the objective or in a constraint (what the usage mark of the front ends means)
    let mut occurring = vec![];
    collect_vars(&m.objective().rhs, &mut occurring);
    for c in m.constraints() {
        collect_vars(c.lhs(), &mut occurring);
        collect_vars(c.rhs(), &mut occurring);
    }
    for (name, dv) in m.domain() {
        let mut v = vtype_json(name, dv.get_type())?;
        v["used"] = json!(dv.is_used() || occurring.contains(name));
        dom.push(v);
    }
    Ok(json!({
        "sense": sense_name(&m.objective().objective_type),
        "obj": exp_to_json(&m.objective().rhs)?,
        "cons": cons,
        "sdom": dom,
    }))
}

/// Scale a row of f64 to integers by a common power of two.
pub fn scale_row(vals: &[f64]) -> R<(Vec<i64>, i64)> {
    let mut den = 1i64;
    for v in vals {
        let (_, d) = dyadic(*v)?;
        den = den.max(d);
    }
    let mut out = vec![];
    for v in vals {
        let s = v * den as f64;
        if s.fract() != 0.0 || s.abs() >= MAX_INT as f64 {
            return Err(Unverifiable(format!("row scale {v}")));
        }
        out.push(s as i64);
    }
    Ok((out, den))
}

/// Structure of a linear model that is always observable, even when its
/// numbers cannot cross to TLC exactly: name ranks (byte order), lengths,
/// non-finite numbers, row names split at a trailing `__<k>`.
pub fn lm_shape(lm: &LinearModel) -> Value {
    let mut sorted: Vec<&String> = lm.variables().iter().collect();
    sorted.sort();
    sorted.dedup();
    let rank: Vec<usize> = lm
        .variables()
        .iter()
        .map(|n| sorted.binary_search(&n).unwrap() + 1)
        .collect();
    let mut nonfinite = vec![];
    for (i, c) in lm.constraints().iter().enumerate() {
        if c.coefficients().iter().any(|x| !x.is_finite()) {
            nonfinite.push(format!("row {} coefficient", i + 1));
        }
        if !c.rhs().is_finite() {
            nonfinite.push(format!("row {} rhs", i + 1));
        }
    }
    if lm.objective().iter().any(|x| !x.is_finite()) {
        nonfinite.push("objective coefficient".to_string());
    }
    if !lm.objective_offset().is_finite() {
        nonfinite.push("objective offset".to_string());
    }
    let rownames: Vec<Value> = lm
        .constraints()
        .iter()
        .map(|c| {
            let name = c.name();
            let (base, k) = match name.rfind("__") {
                Some(i) if i > 0 && name[i + 2..].parse::<u32>().is_ok() && !name[i + 2..].is_empty() => {
                    (name[..i].to_string(), name[i + 2..].parse::<i64>().unwrap())
                }
                _ => (name.clone(), 0),
            };
            json!({"name":name,"base":base,"k":k})
        })
        .collect();
    json!({
        "names": lm.variables(),
        "rank": rank,
        "domkeys": lm.domain().keys().collect::<Vec<_>>(),
        "rowlens": lm.constraints().iter().map(|c| c.coefficients().len()).collect::<Vec<_>>(),
        "objlen": lm.objective().len(),
        "nonfinite": nonfinite,
        "rownames": rownames,
        "sense": sense_name(lm.optimization_type()),
    })
}

/// Linear-model JSON: vars (name, kind, lo, hi, aux), integer rows, objective.
pub fn lm_json(lm: &LinearModel, is_aux: &dyn Fn(&str) -> bool) -> R<Value> {
    let mut vars = vec![];
    for name in lm.variables() {
        let dv = lm
            .domain()
            .get(name)
            .ok_or_else(|| Unverifiable(format!("variable {name} without domain")))?;
        let mut v = vtype_json(name, dv.get_type())?;
        v["aux"] = json!(is_aux(name));
        vars.push(v);
    }
    let mut rows = vec![];
    for c in lm.constraints() {
        let mut vals = c.coefficients().clone();
        vals.push(c.rhs());
        let (ints, den) = scale_row(&vals)?;
        let n = ints.len() - 1;
        rows.push(json!({
            "a": ints[..n],
            "b": ints[n],
            "cmp": cmp_name(c.constraint_type()),
            "name": c.name(),
            "scale": den,
        }));
    }
    let mut vals = lm.objective().clone();
    vals.push(lm.objective_offset());
    let (ints, den) = scale_row(&vals)?;
    let n = ints.len() - 1;
    Ok(json!({
        "vars": vars,
        "rows": rows,
        "obj": ints[..n],
        "off": ints[n],
        "oden": den,
        "sense": sense_name(lm.optimization_type()),
        "domkeys": lm.domain().keys().collect::<Vec<_>>(),
    }))
}
