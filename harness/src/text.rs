//! Text front end: parse / transform / format observations (C09, C11, C12, C06, C19, C18).

use crate::conv::*;
use indexmap::IndexMap;
use rooc::RoocParser;
use serde_json::{Value, json};
use std::panic::{AssertUnwindSafe, catch_unwind};

fn panic_msg(p: Box<dyn std::any::Any + Send>) -> String {
    p.downcast_ref::<String>()
        .cloned()
        .or_else(|| p.downcast_ref::<&str>().map(|s| s.to_string()))
        .unwrap_or_default()
}

/// Parse + transform a source text; the event carries the compiled Model (trees).
pub fn model_of_text(src: &str) -> Value {
    let res = catch_unwind(AssertUnwindSafe(|| {
        RoocParser::new(src.to_string()).parse_and_transform(vec![], &IndexMap::new())
    }));
    match res {
        Err(p) => json!({"out":"panic","why":panic_msg(p)}),
        Ok(Err(e)) => json!({"out":"err","errtext":e.to_string()}),
        Ok(Ok(model)) => match model_json(&model) {
            Ok(mut v) => {
                v["out"] = json!("ok");
                v["modeltext"] = json!(model.to_string());
                v
            }
            Err(u) => json!({"out":"unverifiable","why":u.0}),
        },
    }
}

/// C09: cases {id, tokens:[..], text}; event = case + compiled objective tree.
pub fn parse_event(case: &Value) -> Value {
    let mut ev = case.clone();
    let m = model_of_text(case["text"].as_str().unwrap());
    ev["out"] = m["out"].clone();
    if m["out"] == "ok" {
        ev["tree"] = m["obj"].clone();
    } else {
        ev["why"] = m.get("errtext").or(m.get("why")).cloned().unwrap_or(Value::Null);
        if ev["why"].is_null() {
            ev["why"] = json!("");
        }
    }
    ev
}

/// Text -> Model -> LinearModel, recorded like a corpus-K event (source = the
/// compiled Model of this text).  Used for respelled twins (C10) and by the
/// rendering round trips (C12).
pub fn lin_of_text(id: &str, src: &str) -> Value {
    let res = catch_unwind(AssertUnwindSafe(|| {
        RoocParser::new(src.to_string()).parse_and_transform(vec![], &IndexMap::new())
    }));
    match res {
        Err(p) => json!({"id":id,"out":"panic","why":panic_msg(p),"stage":"front"}),
        Ok(Err(e)) => json!({"id":id,"out":"err","err":{"kind":"FrontEnd"},"errtext":e.to_string(),"stage":"front"}),
        Ok(Ok(model)) => {
            let mut ev = crate::lin::lin_event(id, model);
            ev["stage"] = json!("lin");
            ev
        }
    }
}

/// C10 twins: {id, a: text, b: text}; three events: lin(a), lin(b) judged against a's
/// source model, and the acceptance pair.
pub fn twin_events(case: &Value, out: &mut Vec<Value>) {
    let id = case["id"].as_str().unwrap_or("?");
    let a = lin_of_text(&format!("{id}/a"), case["a"].as_str().unwrap());
    let mut b = lin_of_text(&format!("{id}/b"), case["b"].as_str().unwrap());
    // b's linear model is judged against a's source model (same meaning, other spelling)
    if a["out"] == "ok" && b["out"] == "ok" {
        for k in ["sense", "obj", "cons", "sdom", "srctext"] {
            b[k] = a[k].clone();
        }
        // auxiliaries of b are the variables a's source does not declare
        let declared: std::collections::HashSet<String> = a["sdom"].as_array().unwrap().iter().map(|d| d["name"].as_str().unwrap().to_string()).collect();
        // (indexing a missing key would insert a JSON null, which the TLA+ Json module cannot read)
        if let Some(vars) = b.get_mut("lm").and_then(|lm| lm.get_mut("vars")).and_then(|v| v.as_array_mut()) {
            for v in vars.iter_mut() {
                let n = v["name"].as_str().unwrap().to_string();
                v["aux"] = json!(!declared.contains(&n));
            }
        }
    }
    let kind = |e: &Value| e["err"]["kind"].as_str().unwrap_or("").to_string();
    out.push(json!({"id":format!("{id}/twin"),"twin":true,"out":"twin","outa":a["out"],"outb":b["out"],
                    "erra":kind(&a),"errb":kind(&b),"texta":case["a"],"textb":case["b"],
                    "whya":a.get("errtext").cloned().unwrap_or(json!("")),"whyb":b.get("errtext").cloned().unwrap_or(json!(""))}));
    out.push(a);
    out.push(b);
}

fn fmt_of(src: &str) -> Value {
    match catch_unwind(AssertUnwindSafe(|| RoocParser::new(src.to_string()).format())) {
        Err(p) => json!({"out":"panic","text":panic_msg(p)}),
        Ok(Err(e)) => json!({"out":"err","text":e.to_string()}),
        Ok(Ok(t)) => json!({"out":"ok","text":t}),
    }
}

/// Model of a text with all exactness problems folded into `out`.
fn model_side(src: &str) -> Value {
    let m = model_of_text(src);
    let mut v = json!({"out": m["out"]});
    if m["out"] == "ok" {
        for k in ["sense", "obj", "cons", "sdom", "modeltext"] {
            v[k] = m[k].clone();
        }
    } else {
        v["why"] = m.get("errtext").or(m.get("why")).cloned().unwrap_or(json!(""));
    }
    v
}

/// C11: {id, text, tokens?}: format, format again, compile original and formatted.
pub fn format_event(case: &Value) -> Value {
    let mut ev = case.clone();
    let src = case["text"].as_str().unwrap();
    let parse_ok = catch_unwind(AssertUnwindSafe(|| RoocParser::new(src.to_string()).parse().is_ok())).unwrap_or(false);
    ev["parses"] = json!(parse_ok);
    let f1 = fmt_of(src);
    ev["f1"] = f1.clone();
    if f1["out"] == "ok" {
        let ftext = f1["text"].as_str().unwrap();
        ev["f2"] = fmt_of(ftext);
        ev["b"] = model_side(ftext);
        ev["fparses"] = json!(catch_unwind(AssertUnwindSafe(|| RoocParser::new(ftext.to_string()).parse().is_ok())).unwrap_or(false));
    } else {
        ev["f2"] = json!({"out":"none","text":""});
        ev["b"] = json!({"out":"none"});
        ev["fparses"] = json!(false);
    }
    ev["a"] = model_side(src);
    ev
}

/// Linear model with numbers as sign + bit pattern (exact identity).
pub fn lm_bits(lm: &rooc::LinearModel) -> Value {
    use crate::lp::numrec;
    let vars: Vec<Value> = lm
        .variables()
        .iter()
        .map(|n| match lm.domain().get(n).map(|d| *d.get_type()) {
            Some(rooc::VariableType::Boolean) => json!({"name":n,"kind":"bool","lo":numrec(0.0),"hi":numrec(1.0)}),
            Some(rooc::VariableType::IntegerRange(a, b)) => json!({"name":n,"kind":"int","lo":numrec(a as f64),"hi":numrec(b as f64)}),
            Some(rooc::VariableType::Real(a, b)) => json!({"name":n,"kind":"real","lo":numrec(a),"hi":numrec(b)}),
            Some(rooc::VariableType::NonNegativeReal(a, b)) => json!({"name":n,"kind":"nnreal","lo":numrec(a),"hi":numrec(b)}),
            None => json!({"name":n,"kind":"missing","lo":numrec(0.0),"hi":numrec(0.0)}),
        })
        .collect();
    json!({
        "vars": vars,
        "rows": lm.constraints().iter().map(|c| json!({
            "a": c.coefficients().iter().map(|x| numrec(*x)).collect::<Vec<_>>(),
            "b": numrec(c.rhs()), "cmp": cmp_name(c.constraint_type()), "name": c.name()})).collect::<Vec<_>>(),
        "obj": lm.objective().iter().map(|x| numrec(*x)).collect::<Vec<_>>(),
        "off": numrec(lm.objective_offset()),
        "sense": sense_name(lm.optimization_type()),
    })
}

/// Compile a text all the way: parse, type check, transform, linearize.
fn compile_text(src: &str) -> Value {
    let res = catch_unwind(AssertUnwindSafe(|| {
        let p = RoocParser::new(src.to_string());
        if let Err(e) = p.parse() {
            return json!({"out":"parse_error","why":e.to_string()});
        }
        if let Err(e) = p.type_check(&vec![], &IndexMap::new()) {
            return json!({"out":"type_error","why":e.to_string()});
        }
        let model = match p.parse_and_transform(vec![], &IndexMap::new()) {
            Ok(m) => m,
            Err(e) => return json!({"out":"transform_error","why":e.to_string()}),
        };
        match rooc::Linearizer::linearize(model) {
            Ok(lm) => json!({"out":"ok","lm":lm_bits(&lm),"text":lm.to_string()}),
            Err(e) => json!({"out":"linearize_error","why":e.to_string()}),
        }
    }));
    res.unwrap_or_else(|p| json!({"out":"panic","why":panic_msg(p)}))
}

/// C12: render a compiled Model and its LinearModel and compile the renderings again.
/// Lexical class of every index fragment of a flattened variable name (the part after each `_` that
/// follows the base name): "int" canonical digits, "padded" digits with leading zeros, "ident" letters and
/// digits starting with a letter, "other" anything the grammar has no token for (empty, sign, dot, blank).
fn name_fragments(name: &str) -> Vec<&'static str> {
    let body = name.trim_start_matches('$').trim_start_matches('_');
    body.split('_')
        .skip(1)
        .map(|f| {
            if !f.is_empty() && f.chars().all(|c| c.is_ascii_digit()) {
                if f.len() > 1 && f.starts_with('0') { "padded" } else { "int" }
            } else if f.chars().next().map(|c| c.is_alphabetic()).unwrap_or(false) && f.chars().all(|c| c.is_alphanumeric()) {
                "ident"
            } else {
                "other"
            }
        })
        .collect()
}

/// C08 (row names): the names of the compiled rows of a NameGen program, in order.
pub fn rownames_event(case: &Value) -> Value {
    let mut ev = case.clone();
    let text = case["text"].as_str().unwrap_or("").to_string();
    let res = catch_unwind(AssertUnwindSafe(|| {
        let model = RoocParser::new(text).parse_and_transform(vec![], &IndexMap::new()).map_err(|e| format!("front_error {e}"))?;
        rooc::Linearizer::linearize(model).map_err(|e| format!("linearization_error {e}"))
    }));
    match res {
        Err(_) => {
            ev["out"] = json!("panic");
            ev["rownames"] = json!([]);
        }
        Ok(Err(e)) => {
            ev["out"] = json!(e.split(' ').next().unwrap_or("error"));
            ev["why"] = json!(e);
            ev["rownames"] = json!([]);
        }
        Ok(Ok(lm)) => {
            ev["out"] = json!("ok");
            ev["rownames"] = json!(lm.constraints().iter().map(|c| c.name()).collect::<Vec<_>>());
        }
    }
    ev
}

pub fn render_event(case: &Value) -> Value {
    let id = case["id"].as_str().unwrap_or("?");
    let model = if let Some(t) = case.get("text").and_then(|t| t.as_str()) {
        match catch_unwind(AssertUnwindSafe(|| RoocParser::new(t.to_string()).parse_and_transform(vec![], &IndexMap::new()))) {
            Ok(Ok(m)) => m,
            _ => return json!({"id":id,"out":"nosource"}),
        }
    } else {
        model_from_case(case)
    };
    let modeltext = model.to_string();
    let lm = match catch_unwind(AssertUnwindSafe(|| rooc::Linearizer::linearize(model))) {
        Ok(Ok(lm)) => lm,
        Ok(Err(_)) => return json!({"id":id,"out":"notcompiled","modeltext":modeltext}),
        Err(_) => return json!({"id":id,"out":"panic","modeltext":modeltext}),
    };
    let lmtext = lm.to_string();
    json!({
        "id": id,
        "out": "ok",
        "modeltext": modeltext,
        "lmtext": lmtext,
        "lm": lm_bits(&lm),
        "namefrags": lm.variables().iter().map(|n| json!({"name": n, "cls": name_fragments(n)})).collect::<Vec<_>>(),
        "from_model": compile_text(&modeltext),
        "from_lm": compile_text(&lmtext),
    })
}

/// C03: one-shot solver entry point on a source text.
pub fn e2e_event(case: &Value) -> Value {
    let mut ev = case.clone();
    let src = case["text"].as_str().unwrap().to_string();
    let res = catch_unwind(AssertUnwindSafe(|| {
        let solver = match rooc::RoocSolver::try_new(src.clone()) {
            Ok(s) => s,
            Err(e) => return json!({"out":"parse_error","why":e.to_string()}),
        };
        match solver.solve_using(rooc::auto_solver) {
            Ok(sol) => {
                let point: Vec<Value> = sol
                    .assignment()
                    .iter()
                    .map(|a| {
                        let f: f64 = a.value.into();
                        json!({"name":a.name,"v":crate::lp::num_obs(f)})
                    })
                    .collect();
                json!({"out":"solution","point":point,"value":crate::lp::num_obs(sol.value())})
            }
            Err(rooc::RoocSolverError::Transform(e)) => json!({"out":"transform_error","why":e.to_string()}),
            Err(rooc::RoocSolverError::Linearization(e)) => json!({"out":"linearization_error","why":e.to_string()}),
            Err(rooc::RoocSolverError::Solver(e)) => {
                let k = format!("{:?}", e);
                let k = k.split(|c: char| !c.is_alphanumeric()).next().unwrap_or("").to_string();
                json!({"out":"solver_error","kind":k,"why":e.to_string()})
            }
        }
    }));
    let r = res.unwrap_or_else(|p| json!({"out":"panic","why":panic_msg(p)}));
    for (k, v) in r.as_object().unwrap() {
        ev[k] = v.clone();
    }
    if ev.get("kind").is_none() {
        ev["kind"] = json!("");
    }
    if ev.get("point").is_none() {
        ev["point"] = json!([]);
        ev["value"] = crate::lp::num_obs(0.0);
    }
    ev
}

fn compile_both_levels(src: &str) -> Value {
    let res = catch_unwind(AssertUnwindSafe(|| {
        let p = RoocParser::new(src.to_string());
        let model = match p.parse_and_transform(vec![], &IndexMap::new()) {
            Ok(m) => m,
            Err(e) => return json!({"out":"front_error","why":e}),
        };
        let names: Vec<String> = model.constraints().iter().map(|c| c.name().to_string()).collect();
        let mut decl: Vec<Value> = model
            .domain()
            .iter()
            .map(|(n, d)| json!({"name":n,"type":d.get_type().to_string(),"used":d.is_used()}))
            .collect();
        decl.sort_by(|a, b| a["name"].as_str().cmp(&b["name"].as_str()));
        let modeltext = model.to_string();
        // the Model's own trees (before linearization, which may drop rows it finds redundant)
        let mj = crate::conv::model_json(&model).ok();
        match rooc::Linearizer::linearize(model) {
            Ok(lm) => json!({"out":"ok","lm":lm_bits(&lm),"connames":names,"decl":decl,"modeltext":modeltext,"lmtext":lm.to_string(),
                             "has_model":mj.is_some(),"model":mj.unwrap_or(json!({}))}),
            Err(e) => json!({"out":"linearize_error","why":e.to_string()}),
        }
    }));
    res.unwrap_or_else(|p| json!({"out":"panic","why":panic_msg(p)}))
}

/// C06: a program with data-driven constructs and its hand-unrolled twin.
pub fn expand_event(case: &Value) -> Value {
    json!({
        "id": case["id"],
        "prog": case["prog"],
        "unrolled": case["unrolled"],
        "expect": case.get("expect").cloned().unwrap_or(json!("ok")),
        "a": compile_both_levels(case["prog"].as_str().unwrap()),
        "b": compile_both_levels(case["unrolled"].as_str().unwrap()),
    })
}

/// C19: type check, then transform; the error kinds come from TransformError's own
/// serialisation (variant name) -- only marshalling here.
pub fn typecheck_event(case: &Value) -> Value {
    let mut ev = case.clone();
    let src = case["text"].as_str().unwrap().to_string();
    let res = catch_unwind(AssertUnwindSafe(|| {
        let pre = match RoocParser::new(src.clone()).parse() {
            Ok(p) => p,
            Err(e) => return json!({"out":"parse_error","why":e.to_error_string()}),
        };
        let describe = |e: &rooc::model_transformer::TransformError| {
            let base = e.base_error();
            let v = serde_json::to_value(base).unwrap_or(Value::Null);
            let kind = v["type"].as_str().unwrap_or("?").to_string();
            use rooc::model_transformer::TransformError as TE;
            let (op, lhs, rhs, msg) = match base {
                TE::BinOpError { operator, lhs, rhs } => (format!("{:?}", operator), lhs.to_string(), rhs.to_string(), String::new()),
                TE::UnOpError { operator, exp } => (format!("{:?}", operator), exp.to_string(), String::new(), String::new()),
                TE::Other(m) => (String::new(), String::new(), String::new(), m.clone()),
                // for these the fields carry: the undeclared name / expected and got kinds
                TE::UndeclaredVariable(n) | TE::UndeclaredVariableDomain(n) => (String::new(), String::new(), String::new(), n.clone()),
                TE::WrongArgument { got, expected } => (String::new(), expected.to_string(), got.to_string(), String::new()),
                _ => (String::new(), String::new(), String::new(), String::new()),
            };
            json!({"kind":kind,"op":op,"lhs":lhs,"rhs":rhs,"msg":msg,"text":base.to_string()})
        };
        let tc = pre.create_type_checker(&vec![], &IndexMap::new());
        let tr = pre.transform(vec![], &IndexMap::new());
        json!({
            "out":"ran",
            "accepted": tc.is_ok(),
            "tc": match &tc { Ok(_) => json!({"kind":"","op":"","lhs":"","rhs":"","msg":"","text":""}), Err(e) => describe(e) },
            "transformed": tr.is_ok(),
            "tr": match &tr { Ok(_) => json!({"kind":"","op":"","lhs":"","rhs":"","msg":"","text":""}), Err(e) => describe(e) },
        })
    }));
    let r = res.unwrap_or_else(|p| json!({"out":"panic","why":panic_msg(p)}));
    for (k, v) in r.as_object().unwrap() {
        ev[k] = v.clone();
    }
    ev
}
