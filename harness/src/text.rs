//! Text front end: parse / transform / format observations (C09, C11, C12, C06, C19, C18).

use crate::conv::*;
use indexmap::IndexMap;
use rooc::RoocParser;
use serde_json::{Value, json};
use std::panic::{AssertUnwindSafe, catch_unwind};

fn panic_msg(p: Box<dyn std::any::Any + Send>) -> String {
    p.downcast_ref::<String>()
        .cloned()
        .or_else(|| p.downcast_ref::<&str>().map(|s| s.to_string()))
        .unwrap_or_default()
}

/// Parse + transform a source text; the event carries the compiled Model (trees).
pub fn model_of_text(src: &str) -> Value {
    let res = catch_unwind(AssertUnwindSafe(|| {
        RoocParser::new(src.to_string()).parse_and_transform(vec![], &IndexMap::new())
    }));
    match res {
        Err(p) => json!({"out":"panic","why":panic_msg(p)}),
        Ok(Err(e)) => json!({"out":"err","errtext":e.to_string()}),
        Ok(Ok(model)) => match model_json(&model) {
            Ok(mut v) => {
                v["out"] = json!("ok");
                v["modeltext"] = json!(model.to_string());
                v
            }
            Err(u) => json!({"out":"unverifiable","why":u.0}),
        },
    }
}

/// C09: cases {id, tokens:[..], text}; event = case + compiled objective tree.
pub fn parse_event(case: &Value) -> Value {
    let mut ev = case.clone();
    let m = model_of_text(case["text"].as_str().unwrap());
    ev["out"] = m["out"].clone();
    if m["out"] == "ok" {
        ev["tree"] = m["obj"].clone();
    } else {
        ev["why"] = m.get("errtext").or(m.get("why")).cloned().unwrap_or(Value::Null);
        if ev["why"].is_null() {
            ev["why"] = json!("");
        }
    }
    ev
}
