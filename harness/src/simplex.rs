//! C14: drive the real Tableau and record begin / pivot / end events (hook H3).

use rooc::{SimplexError, StepAction, Tableau};
use rooc::tableau::verif_hooks::{self, SimplexEvent, Snapshot};
use serde_json::{Value, json};
use std::panic::{AssertUnwindSafe, catch_unwind};

const S: f64 = 10000.0;

fn scaled(x: f64) -> Option<i64> {
    let v = (x * S).round();
    if !v.is_finite() || v.abs() > 2.0e8 {
        None
    } else {
        Some(v as i64)
    }
}

fn obs_json(s: &Snapshot) -> Option<Value> {
    let mut a = vec![];
    for row in &s.a {
        a.push(row.iter().map(|x| scaled(*x)).collect::<Option<Vec<_>>>()?);
    }
    Some(json!({
        "a": a,
        "b": s.b.iter().map(|x| scaled(*x)).collect::<Option<Vec<_>>>()?,
        "c": s.c.iter().map(|x| scaled(*x)).collect::<Option<Vec<_>>>()?,
        "z": scaled(s.current_value)?,
        "basis": s.in_basis.iter().map(|i| i + 1).collect::<Vec<_>>(),
    }))
}

/// Smallest d <= 720 such that every value times d is integral within 1e-7.
fn common_den(vals: &[f64]) -> Option<i64> {
    'outer: for d in 1..=720i64 {
        for v in vals {
            let s = v * d as f64;
            if (s - s.round()).abs() > 1e-7 * (1.0 + s.abs()) {
                continue 'outer;
            }
        }
        return Some(d);
    }
    // dyadic data below 1/720: powers of two up to 2^20 (costs and entries of size 1e-6)
    'pow: for k in 10..=20 {
        let d = 1i64 << k;
        for v in vals {
            let s = v * d as f64;
            if (s - s.round()).abs() > 1e-7 * (1.0 + s.abs()) {
                continue 'pow;
            }
        }
        return Some(d);
    }
    None
}

/// Begin event from a float snapshot: integers over a common denominator.
pub fn begin_from_snapshot(run: &str, mode: &str, s: &Snapshot) -> Option<Value> {
    let mut vals: Vec<f64> = s.a.iter().flatten().cloned().collect();
    vals.extend(&s.b);
    vals.extend(&s.c);
    vals.push(s.current_value);
    let d = common_den(&vals)?;
    let int = |x: f64| (x * d as f64).round() as i64;
    if vals.iter().any(|v| (v * d as f64).abs() > 2.2e6) {
        return None;
    }
    Some(json!({
        "kind":"begin","run":run,"mode":mode,"D":d,
        "A": s.a.iter().map(|r| r.iter().map(|x| int(*x)).collect::<Vec<_>>()).collect::<Vec<_>>(),
        "b": s.b.iter().map(|x| int(*x)).collect::<Vec<_>>(),
        "c": s.c.iter().map(|x| int(*x)).collect::<Vec<_>>(),
        "z": int(s.current_value),
        "basis": s.in_basis.iter().map(|i| i + 1).collect::<Vec<_>>(),
    }))
}

fn snapshot_of(t: &Tableau) -> Snapshot {
    Snapshot {
        a: t.a_matrix().clone(),
        b: t.b_vec().clone(),
        c: t.c_vec().clone(),
        in_basis: t.in_basis().clone(),
        current_value: t.current_value(),
    }
}

/// Turn hook events + outcome into trace events; `runs` may contain several
/// Begin events (phase 1 inside into_tableau, then the main solve).
pub fn emit(run: &str, mode: &str, events: Vec<SimplexEvent>, outcome: &str, x: Option<Vec<f64>>, out: &mut Vec<Value>) {
    let mut k = 0;
    let mut open = false;
    let mut bad = false;
    for e in events {
        match e {
            SimplexEvent::Begin { state, .. } => {
                if open {
                    // an inner solve ended (phase 1): it finished, otherwise the caller would have failed
                    out.push(json!({"kind":"end","run":format!("{run}#{k}"),"mode":mode,"outcome":"inner","x":[]}));
                }
                k += 1;
                match begin_from_snapshot(&format!("{run}#{k}"), mode, &state) {
                    Some(b) => {
                        out.push(b);
                        open = true;
                        bad = false;
                    }
                    None => {
                        bad = true;
                        open = false;
                    }
                }
            }
            SimplexEvent::Pivot { entering, leaving_row, use_bland, state } => {
                if bad || !open {
                    continue;
                }
                match obs_json(&state) {
                    Some(o) => out.push(json!({"kind":"pivot","run":format!("{run}#{k}"),"h":entering+1,"t":leaving_row+1,"bland":use_bland,"obs":o})),
                    None => bad = true,
                }
            }
        }
    }
    if open && !bad {
        let xs = x.map(|v| v.iter().map(|f| scaled(*f).unwrap_or(0)).collect::<Vec<_>>()).unwrap_or_default();
        out.push(json!({"kind":"end","run":format!("{run}#{k}"),"mode":mode,"outcome":outcome,"x":xs}));
    }
}

fn outcome_of(e: &SimplexError) -> &'static str {
    match e {
        SimplexError::Unbounded => "unbounded",
        SimplexError::IterationLimitReached => "limit",
        SimplexError::Other => "other",
    }
}

fn tableau_from_case(case: &Value) -> Tableau {
    let den = case.get("den").and_then(|d| d.as_i64()).unwrap_or(1) as f64;
    let f = |v: &Value| v.as_i64().unwrap() as f64 / den;
    let c: Vec<f64> = case["c"].as_array().unwrap().iter().map(f).collect();
    let a: Vec<Vec<f64>> = case["a"].as_array().unwrap().iter().map(|r| r.as_array().unwrap().iter().map(f).collect()).collect();
    let b: Vec<f64> = case["b"].as_array().unwrap().iter().map(f).collect();
    let basis: Vec<usize> = case["basis"].as_array().unwrap().iter().map(|v| v.as_u64().unwrap() as usize - 1).collect();
    let value = case.get("z").map(f).unwrap_or(0.0);
    let n = c.len();
    Tableau::new(c, a, b, basis, value, 0.0, (0..n).map(|i| format!("x{}", i + 1)).collect(), false)
}

/// Direct tableau cases: {id, c, a, b, basis(1-based), z, den}; three driving modes.
pub fn tableau_events(case: &Value, out: &mut Vec<Value>) {
    let id = case["id"].as_str().unwrap_or("?");
    let limit = case.get("limit").and_then(|v| v.as_i64()).unwrap_or(1000);
    // solve
    {
        let mut t = tableau_from_case(case);
        verif_hooks::start();
        let r = catch_unwind(AssertUnwindSafe(|| t.solve(limit)));
        let evs = verif_hooks::take();
        match r {
            Ok(Ok(opt)) => emit(&format!("{id}/solve"), "solve", evs, "finished", Some(opt.variables_values().clone()), out),
            Ok(Err(e)) => emit(&format!("{id}/solve"), "solve", evs, outcome_of(&e), None, out),
            Err(_) => emit(&format!("{id}/solve"), "solve", evs, "panic", None, out),
        }
    }
    // solve_step_by_step
    {
        let mut t = tableau_from_case(case);
        verif_hooks::start();
        let r = catch_unwind(AssertUnwindSafe(|| t.solve_step_by_step(limit)));
        let evs = verif_hooks::take();
        match r {
            Ok(Ok(opt)) => {
                let n_steps = opt.steps().len();
                let n_piv = evs.iter().filter(|e| matches!(e, SimplexEvent::Pivot { .. })).count();
                let oc = if n_steps == n_piv { "finished" } else { "stepcount" };
                emit(&format!("{id}/steps"), "steps", evs, oc, Some(opt.result().variables_values().clone()), out)
            }
            Ok(Err(e)) => emit(&format!("{id}/steps"), "steps", evs, outcome_of(&e), None, out),
            Err(_) => emit(&format!("{id}/steps"), "steps", evs, "panic", None, out),
        }
    }
    // manual step(&[]) loop, cut after K steps (no Bland switch: may cycle)
    {
        let mut t = tableau_from_case(case);
        let n = t.c_vec().len();
        let m = t.b_vec().len();
        let mut comb = 1usize;
        for i in 0..m {
            comb = comb * (n - i) / (i + 1);
        }
        let cut = 3 * comb.max(1);
        let begin = SimplexEvent::Begin { state: snapshot_of(&t), avoid: vec![] };
        verif_hooks::start();
        let mut outcome = "limit";
        let mut x = None;
        for _ in 0..cut {
            match catch_unwind(AssertUnwindSafe(|| t.step(&[]))) {
                Ok(Ok(StepAction::Pivot { .. })) => {}
                Ok(Ok(StepAction::Finished)) => {
                    outcome = "finished";
                    let mut values = vec![0.0; n];
                    for (i, &j) in t.in_basis().iter().enumerate() {
                        values[j] = t.b_vec()[i];
                    }
                    x = Some(values);
                    break;
                }
                Ok(Err(e)) => {
                    outcome = outcome_of(&e);
                    break;
                }
                Err(_) => {
                    outcome = "panic";
                    break;
                }
            }
        }
        let mut evs = vec![begin];
        evs.extend(verif_hooks::take());
        emit(&format!("{id}/manual"), "manual", evs, outcome, x, out);
    }
}

/// C14 through the LP front door: LinearModel -> standard form -> into_tableau
/// (phase 1 recorded by hook H3) -> solve_step_by_step.  Also emits a `canon`
/// event relating the returned canonical tableau to the standard form.
pub fn lp_path_events(case: &Value, out: &mut Vec<Value>) {
    let id = case["id"].as_str().unwrap_or("?");
    let lm = crate::lp::lm_from_case(case);
    let std = match catch_unwind(AssertUnwindSafe(|| lm.into_standard_form())) {
        Ok(Ok(s)) => s,
        _ => return,
    };
    // standard form rows as integers over a common denominator
    let mut vals: Vec<f64> = vec![];
    for c in std.verif_constraints() {
        vals.extend(c.coefficients());
        vals.push(c.rhs());
    }
    vals.extend(std.verif_objective());
    let Some(sd) = common_den(&vals) else { return };
    let int = |x: f64| (x * sd as f64).round() as i64;
    let std_json = json!({
        "A": std.verif_constraints().iter().map(|c| c.coefficients().iter().map(|x| int(*x)).collect::<Vec<_>>()).collect::<Vec<_>>(),
        "b": std.verif_constraints().iter().map(|c| int(c.rhs())).collect::<Vec<_>>(),
        "c": std.verif_objective().iter().map(|x| int(*x)).collect::<Vec<_>>(),
        "D": sd,
    });
    verif_hooks::start();
    let res = catch_unwind(AssertUnwindSafe(|| std.into_tableau()));
    let phase1 = verif_hooks::take();
    match res {
        Err(_) => {
            emit(&format!("{id}/phase1"), "phase1", phase1, "panic", None, out);
        }
        Ok(Err(e)) => {
            let oc = match e {
                rooc::CanonicalTransformError::Infesible(_) => "infeasible",
                _ => "other",
            };
            emit(&format!("{id}/phase1"), "phase1", phase1, oc, None, out);
        }
        Ok(Ok(mut t)) => {
            emit(&format!("{id}/phase1"), "phase1", phase1, "inner", None, out);
            if let Some(mut b) = begin_from_snapshot(&format!("{id}/canon"), "canon", &snapshot_of(&t)) {
                b["kind"] = json!("canon");
                b["std"] = std_json;
                out.push(b);
            }
            verif_hooks::start();
            let r = catch_unwind(AssertUnwindSafe(|| t.solve_step_by_step(1000)));
            let evs = verif_hooks::take();
            match r {
                Ok(Ok(opt)) => emit(&format!("{id}/lpsteps"), "steps", evs, "finished", Some(opt.result().variables_values().clone()), out),
                Ok(Err(e)) => emit(&format!("{id}/lpsteps"), "steps", evs, outcome_of(&e), None, out),
                Err(_) => emit(&format!("{id}/lpsteps"), "steps", evs, "panic", None, out),
            }
        }
    }
}
