//! C10 (part 1): Exp::simplify / Exp::flatten on generated trees.

use crate::conv::*;
use serde_json::{Value, json};
use std::panic::{AssertUnwindSafe, catch_unwind};

fn out_tree(e: Result<rooc::model_transformer::Exp, ()>) -> Value {
    match e {
        Err(_) => json!({"op":"panic"}),
        Ok(e) => exp_to_json(&e).unwrap_or_else(|u| json!({"op":"unverifiable","why":u.0})),
    }
}

pub fn rewrite_event(case: &Value) -> Value {
    let mut ev = case.clone();
    let e = json_to_exp(&case["tree"]);
    ev["text"] = json!(e.to_string());
    let run = |f: &dyn Fn() -> rooc::model_transformer::Exp| catch_unwind(AssertUnwindSafe(f)).map_err(|_| ());
    ev["s"] = out_tree(run(&|| e.simplify()));
    ev["f"] = out_tree(run(&|| e.clone().flatten()));
    ev["fs"] = out_tree(run(&|| e.clone().flatten().simplify()));
    ev["sf"] = out_tree(run(&|| e.simplify().flatten()));
    ev["ss"] = out_tree(run(&|| e.simplify().simplify()));
    ev["stext"] = json!(catch_unwind(AssertUnwindSafe(|| e.simplify().to_string())).unwrap_or_default());
    ev
}
