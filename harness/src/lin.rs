//! Corpus K: run `Linearizer::linearize` on cases and record input and output.

use crate::conv::*;
use rooc::model_transformer::Model;
use rooc::{LinearizationError, Linearizer};
use serde_json::{Value, json};
use std::collections::HashSet;
use std::panic::{AssertUnwindSafe, catch_unwind};

pub fn err_json(e: &LinearizationError) -> Value {
    match e {
        LinearizationError::NonLinearExpression(_) => json!({"kind":"NonLinearExpression"}),
        LinearizationError::DivisionByZero(_) => json!({"kind":"DivisionByZero"}),
        LinearizationError::EmptyAggregation(_) => json!({"kind":"EmptyAggregation"}),
        LinearizationError::VarAlreadyDeclared(n) => json!({"kind":"VarAlreadyDeclared","name":n}),
        LinearizationError::UnimplementedExpression(_) => json!({"kind":"UnimplementedExpression"}),
        LinearizationError::NonBinaryLogicOperand(_) => json!({"kind":"NonBinaryLogicOperand"}),
        LinearizationError::NonFiniteConstant(_) => json!({"kind":"NonFiniteConstant"}),
        LinearizationError::InvalidDomain { variable, .. } => json!({"kind":"InvalidDomain","name":variable}),
        LinearizationError::UndeclaredVariable(n) => json!({"kind":"UndeclaredVariable","name":n}),
        LinearizationError::MissingFiniteBounds { variables, expression, .. } => {
            let mut vs = vec![];
            collect_vars(expression, &mut vs);
            json!({"kind":"MissingFiniteBounds","variables":variables,"exprvars":vs})
        }
        // (an error kind a later version of the compiler adds is a structured error like the others)
        #[allow(unreachable_patterns)]
        _ => json!({"kind":"LaterKind"}),
    }
}

/// One event from one model: source JSON + outcome (+ linear model JSON).
pub fn lin_event(id: &str, model: Model) -> Value {
    let src = match model_json(&model) {
        Ok(v) => v,
        Err(u) => return json!({"id":id,"out":"unverifiable","why":u.0}),
    };
    let src_exact = !src.to_string().contains("\"d\":0");
    let declared: HashSet<String> = model.domain().keys().cloned().collect();
    let mut ev = src;
    ev["id"] = json!(id);
    ev["srctext"] = json!(model.to_string());
    ev["srcfinite"] = json!(src_exact);
    let res = catch_unwind(AssertUnwindSafe(|| Linearizer::linearize(model)));
    match res {
        Err(p) => {
            let msg = p
                .downcast_ref::<String>()
                .cloned()
                .or_else(|| p.downcast_ref::<&str>().map(|s| s.to_string()))
                .unwrap_or_default();
            ev["out"] = json!("panic");
            ev["why"] = json!(msg);
        }
        Ok(Err(e)) => {
            ev["out"] = json!("err");
            ev["err"] = err_json(&e);
            ev["errtext"] = json!(e.to_string());
        }
        Ok(Ok(lm)) => {
            ev["out"] = json!("ok");
            ev["shape"] = lm_shape(&lm);
            ev["text"] = json!(lm.to_string());
            match lm_json(&lm, &|n| !declared.contains(n)) {
                Ok(v) => {
                    ev["lm"] = v;
                    ev["exact"] = json!(src_exact);
                }
                Err(u) => {
                    ev["exact"] = json!(false);
                    ev["why"] = json!(u.0);
                }
            }
        }
    }
    ev
}

/// The case with every declared `$`-named variable renamed to a plain name, compiled: outcome and
/// number of variables (None when the case declares no such variable).
pub fn renamed_twin(case: &Value) -> Option<Value> {
    let names: Vec<String> = case["dom"]
        .as_array()?
        .iter()
        .filter_map(|d| d["name"].as_str())
        .filter(|n| n.starts_with('$'))
        .map(|n| n.to_string())
        .collect();
    if names.is_empty() {
        return None;
    }
    let mut text = case.to_string();
    for (k, n) in names.iter().enumerate() {
        text = text.replace(&format!("\"name\":{}", Value::String(n.clone())), &format!("\"name\":\"usr{k}\""));
    }
    let twin: Value = serde_json::from_str(&text).ok()?;
    let model = crate::conv::model_from_case(&twin);
    let res = catch_unwind(AssertUnwindSafe(|| Linearizer::linearize(model)));
    Some(match res {
        Err(_) => json!({"out":"panic","nvars":0,"renamed":names.len()}),
        Ok(Err(e)) => json!({"out":"err","kind":err_json(&e)["kind"],"nvars":0,"renamed":names.len()}),
        Ok(Ok(lm)) => json!({"out":"ok","nvars":lm.variables().len(),"renamed":names.len()}),
    })
}
