//! C16 (logic chains through the macros): one chain of Chains.tla through `constraint!`, `expr!`
//! and the text, each reported as the expression tree the door built.
//! The macros take compile-time tokens: one arm per operator sequence, operands are expressions.

use crate::conv::model_json;
use indexmap::IndexMap;
use rooc::{BuilderConstraint, Expr, ModelBuilder, RoocParser, VariableType};
use serde_json::{Value, json};
use std::panic::{AssertUnwindSafe, catch_unwind};

fn guarded(f: impl FnOnce() -> Value) -> Value {
    catch_unwind(AssertUnwindSafe(f)).unwrap_or_else(|_| json!({"out":"panic"}))
}

/// The tree of the model's first constraint (a logic assertion).
fn first_tree(model: &rooc::model_transformer::Model) -> Value {
    match model_json(model) {
        Ok(m) => match m["cons"].get(0) {
            Some(c) => json!({"out":"ok","tree":c["lhs"]}),
            None => json!({"out":"no constraint"}),
        },
        Err(u) => json!({"out":"unverifiable","why":u.0}),
    }
}

pub fn chains_event(case: &Value) -> Value {
    let mut ev = case.clone();
    let ops: Vec<String> = case["ops"].as_array().unwrap().iter().map(|o| o.as_str().unwrap().to_string()).collect();
    let forms: Vec<String> = case["forms"].as_array().unwrap().iter().map(|o| o.as_str().unwrap().to_string()).collect();
    let build = |use_constraint: bool| {
        let mut mb = ModelBuilder::new();
        let names = ["a", "b", "c", "d"];
        let vs: Vec<rooc::Var> = names.iter().map(|n| mb.add_var(*n, VariableType::bool())).collect();
        let e = mb.add_var("e", VariableType::bool());
        let operand = |i: usize| -> Expr {
            let v: Expr = vs[i].into();
            match forms[i].as_str() {
                "v" => v,
                "nv" => Expr::Not(Box::new(v)),
                "and" => Expr::And(vec![v, e.into()]),
                o => panic!("form {o}"),
            }
        };
        let o1 = operand(0);
        let o2 = operand(1);
        let o3 = if forms.len() > 2 { operand(2) } else { Expr::Number(0.0) };
        let o4 = if forms.len() > 3 { operand(3) } else { Expr::Number(0.0) };
        let key: Vec<&str> = ops.iter().map(|s| s.as_str()).collect();
        macro_rules! arm {
            ($($t:tt)*) => {
                if use_constraint { rooc::constraint!($($t)*) } else { BuilderConstraint::new_logic_assertion(rooc::expr!($($t)*), "".to_string()) }
            };
        }
        let c: BuilderConstraint = match key.as_slice() {
            ["implies"] => arm!(o1 -> o2),
            ["iff"] => arm!(o1 <-> o2),
            ["implies", "implies"] => arm!(o1 -> o2 -> o3),
            ["implies", "iff"] => arm!(o1 -> o2 <-> o3),
            ["iff", "implies"] => arm!(o1 <-> o2 -> o3),
            ["iff", "iff"] => arm!(o1 <-> o2 <-> o3),
            ["implies", "implies", "implies"] => arm!(o1 -> o2 -> o3 -> o4),
            ["implies", "implies", "iff"] => arm!(o1 -> o2 -> o3 <-> o4),
            ["implies", "iff", "implies"] => arm!(o1 -> o2 <-> o3 -> o4),
            ["implies", "iff", "iff"] => arm!(o1 -> o2 <-> o3 <-> o4),
            ["iff", "implies", "implies"] => arm!(o1 <-> o2 -> o3 -> o4),
            ["iff", "implies", "iff"] => arm!(o1 <-> o2 -> o3 <-> o4),
            ["iff", "iff", "implies"] => arm!(o1 <-> o2 <-> o3 -> o4),
            ["iff", "iff", "iff"] => arm!(o1 <-> o2 <-> o3 <-> o4),
            o => panic!("ops {o:?}"),
        };
        first_tree(&mb.with(c).into_model())
    };
    ev["C"] = guarded(|| build(true));
    ev["X"] = guarded(|| build(false));
    ev["T"] = guarded(|| {
        match RoocParser::new(case["text"].as_str().unwrap().to_string()).parse_and_transform(vec![], &IndexMap::new()) {
            Ok(m) => first_tree(&m),
            Err(e) => json!({"out":"front_error","why":e.to_string()}),
        }
    });
    ev
}
