//! C16: the same abstract model through every front door.
//!   B  fluent builder (methods + operators) following a call plan from Builder.tla
//!   T  text -> RoocParser -> Linearizer -> auto_solver
//!   K  text with its constants supplied through the API (parse_and_transform(constants, ..))
//!   P  staged PipeRunner (compiler, pre-model, model, linear model, solver pipes)
//!   S  one-shot RoocSolver::solve_using(auto_solver)

use crate::conv::*;
use crate::lp::num_obs;
use crate::text::lm_bits;
use indexmap::IndexMap;
use rooc::builder::{abs, all, any, max, min};
use rooc::pipe::{AutoSolverPipe, CompilerPipe, LinearModelPipe, ModelPipe, PipeContext, PipeRunner, PipeableData, PreModelPipe};
use rooc::{Auto, BuilderConstraint, Expr, ModelBuilder, RoocParser, Var};
use serde_json::{Value, json};
use std::collections::HashMap;
use std::panic::{AssertUnwindSafe, catch_unwind};

fn to_expr(t: &Value, vars: &HashMap<String, Var>) -> Expr {
    let op = t["op"].as_str().unwrap();
    let a = || to_expr(&t["a"], vars);
    let b = || to_expr(&t["b"], vars);
    let args = || t["args"].as_array().unwrap().iter().map(|x| to_expr(x, vars)).collect::<Vec<_>>();
    match op {
        "num" => Expr::from(t["n"].as_i64().unwrap() as f64 / t["d"].as_i64().unwrap() as f64),
        "var" => Expr::from(vars[t["name"].as_str().unwrap()]),
        "add" => a() + b(),
        "sub" => a() - b(),
        "mul" => a() * b(),
        "div" => a() / b(),
        "neg" => -a(),
        "abs" => abs(a()),
        "min" => min(args()),
        "max" => max(args()),
        "and" => all(args()),
        "or" => any(args()),
        "not" | "u_not" => !a(),
        "xor" | "b_xor" => a() ^ b(),
        "implies" | "b_implies" => a().implies(b()),
        "iff" | "b_iff" => a().iff(b()),
        "b_and" => a() & b(),
        "b_or" => a() | b(),
        o => panic!("op {o}"),
    }
}


/// Operands as a user of the builder would write them: variable handles, integer and float
/// literals, Booleans, or already-built expressions.  `to_native` always picks the most
/// specific operator overload / helper the public API offers for the operand kinds.
enum Opd {
    V(Var),
    I(i32),
    F(f64),
    E(Expr),
}

impl Opd {
    fn into_expr(self) -> Expr {
        match self {
            Opd::V(v) => Expr::from(v),
            Opd::I(i) => Expr::from(i),
            Opd::F(f) => Expr::from(f),
            Opd::E(e) => e,
        }
    }
}

macro_rules! arith {
    ($a:expr, $b:expr, $op:tt) => {
        match ($a, $b) {
            (Opd::V(a), Opd::V(b)) => a $op b,
            (Opd::V(a), Opd::I(b)) => a $op b,
            (Opd::V(a), Opd::F(b)) => a $op b,
            (Opd::V(a), Opd::E(b)) => a $op b,
            (Opd::I(a), Opd::V(b)) => a $op b,
            (Opd::I(a), Opd::E(b)) => a $op b,
            (Opd::I(a), Opd::I(b)) => Expr::from(a) $op b,
            (Opd::I(a), Opd::F(b)) => Expr::from(a) $op b,
            (Opd::F(a), Opd::V(b)) => a $op b,
            (Opd::F(a), Opd::E(b)) => a $op b,
            (Opd::F(a), Opd::I(b)) => Expr::from(a) $op b,
            (Opd::F(a), Opd::F(b)) => Expr::from(a) $op b,
            (Opd::E(a), Opd::V(b)) => a $op b,
            (Opd::E(a), Opd::I(b)) => a $op b,
            (Opd::E(a), Opd::F(b)) => a $op b,
            (Opd::E(a), Opd::E(b)) => if true { a $op &b } else { a $op b },
        }
    };
}

/// `&`, `|` take Booleans on either side of a handle or an expression.
macro_rules! bitlogic {
    ($a:expr, $b:expr, $op:tt) => {
        match ($a, $b) {
            (Opd::V(a), Opd::V(b)) => a $op b,
            (Opd::V(a), Opd::E(b)) => a $op b,
            (Opd::E(a), Opd::V(b)) => a $op b,
            (Opd::E(a), Opd::E(b)) => a $op b,
            (Opd::V(a), Opd::I(b)) if b == 0 || b == 1 => a $op (b == 1),
            (Opd::E(a), Opd::I(b)) if b == 0 || b == 1 => a $op (b == 1),
            (Opd::I(a), Opd::V(b)) if a == 0 || a == 1 => (a == 1) $op b,
            (Opd::I(a), Opd::E(b)) if a == 0 || a == 1 => (a == 1) $op b,
            (a, b) => a.into_expr() $op b.into_expr(),
        }
    };
}

fn all_vars(xs: &[Opd]) -> Option<Vec<Var>> {
    xs.iter().map(|x| if let Opd::V(v) = x { Some(*v) } else { None }).collect()
}

fn to_native(t: &Value, vars: &HashMap<String, Var>) -> Opd {
    let op = t["op"].as_str().unwrap();
    let a = || to_native(&t["a"], vars);
    let b = || to_native(&t["b"], vars);
    let args = || t["args"].as_array().unwrap().iter().map(|x| to_native(x, vars)).collect::<Vec<_>>();
    // helpers taking `impl IntoIterator<Item = impl Into<Expr>>`: a list of handles when possible
    macro_rules! list {
        ($f:ident) => {{
            let xs = args();
            match all_vars(&xs) {
                Some(vs) => $f(vs),
                None => $f(xs.into_iter().map(Opd::into_expr)),
            }
        }};
    }
    macro_rules! method {
        ($m:ident) => {
            match (a(), b()) {
                (Opd::V(x), Opd::V(y)) => x.$m(y),
                (Opd::V(x), Opd::I(y)) => x.$m(y),
                (Opd::V(x), Opd::F(y)) => x.$m(y),
                (Opd::V(x), Opd::E(y)) => x.$m(y),
                (x, Opd::V(y)) => x.into_expr().$m(y),
                (x, Opd::I(y)) => x.into_expr().$m(y),
                (x, Opd::F(y)) => x.into_expr().$m(y),
                (x, Opd::E(y)) => x.into_expr().$m(y),
            }
        };
    }
    Opd::E(match op {
        "num" => {
            let (n, d) = (t["n"].as_i64().unwrap(), t["d"].as_i64().unwrap());
            return if d == 1 && n.abs() < (1 << 30) { Opd::I(n as i32) } else { Opd::F(n as f64 / d as f64) };
        }
        "var" => return Opd::V(vars[t["name"].as_str().unwrap()]),
        "add" => {
            // a left-nested chain of additions is what `sum` is documented to build
            let mut spine = vec![];
            let mut cur = t;
            while cur["op"] == "add" {
                spine.push(&cur["b"]);
                cur = &cur["a"];
            }
            if spine.len() >= 2 {
                spine.push(cur);
                spine.reverse();
                let xs: Vec<Opd> = spine.into_iter().map(|x| to_native(x, vars)).collect();
                match all_vars(&xs) {
                    Some(vs) => rooc::builder::sum(vs),
                    None => rooc::builder::sum(xs.into_iter().map(Opd::into_expr)),
                }
            } else {
                arith!(a(), b(), +)
            }
        }
        "sub" => arith!(a(), b(), -),
        "mul" => arith!(a(), b(), *),
        "div" => arith!(a(), b(), /),
        "neg" => match a() {
            Opd::V(v) => -v,
            x => -x.into_expr(),
        },
        "abs" => match a() {
            Opd::V(v) => abs(v),
            Opd::I(i) => abs(i),
            Opd::F(f) => abs(f),
            Opd::E(e) => abs(e),
        },
        "min" => list!(min),
        "max" => list!(max),
        "and" => list!(all),
        "or" => list!(any),
        "not" | "u_not" => match a() {
            Opd::V(v) => !v,
            x => !x.into_expr(),
        },
        "xor" | "b_xor" => match (a(), b()) {
            (Opd::V(x), Opd::V(y)) => x ^ y,
            (Opd::V(x), Opd::E(y)) => x ^ y,
            (Opd::E(x), Opd::V(y)) => x ^ y,
            (x, y) => x.into_expr() ^ y.into_expr(),
        },
        "implies" | "b_implies" => method!(implies),
        "iff" | "b_iff" => method!(iff),
        "b_and" => bitlogic!(a(), b(), &),
        "b_or" => bitlogic!(a(), b(), |),
        o => panic!("op {o}"),
    })
}

/// A constraint written with the `constraint!` macro (the comparison token picks the relation).
fn macro_constraint(lhs: Expr, cmp: &str, rhs: Expr, name: &str, assert: bool) -> BuilderConstraint {
    let mut c = if assert {
        rooc::constraint!(lhs)
    } else {
        match cmp {
            "le" => rooc::constraint!(lhs <= rhs),
            "ge" => rooc::constraint!(lhs >= rhs),
            "eq" => rooc::constraint!(lhs == rhs),
            "lt" => rooc::constraint!(lhs < rhs),
            "gt" => rooc::constraint!(lhs > rhs),
            o => panic!("cmp {o}"),
        }
    };
    c.name = name.to_string();
    c
}

fn point_json<T: Copy + Into<f64>>(vals: &[(String, Option<T>)]) -> Value {
    vals.iter()
        .map(|(n, v)| match v {
            Some(x) => json!({"name":n,"v":num_obs((*x).into()),"has":true}),
            None => json!({"name":n,"v":num_obs(0.0),"has":false}),
        })
        .collect()
}

fn milp_solution_json(sol: &rooc::LpSolution<rooc::MILPValue>) -> Value {
    let pt: Vec<(String, Option<f64>)> = sol.assignment().iter().map(|a| (a.name.clone(), Some(a.value.into()))).collect();
    json!({"out":"solution","point":point_json(&pt),"value":num_obs(sol.value())})
}

fn solver_err(e: &rooc::SolverError) -> Value {
    let k = format!("{:?}", e);
    let k = k.split(|c: char| !c.is_alphanumeric()).next().unwrap_or("").to_string();
    json!({"out":"solver_error","kind":k,"point":[],"value":num_obs(0.0)})
}

fn fail(kind: &str, why: String) -> Value {
    json!({"out":kind,"kind":"","why":why,"point":[],"value":num_obs(0.0)})
}

fn with_lm(mut v: Value, lm: Option<&rooc::LinearModel>, model: Option<Value>) -> Value {
    // (no JSON null: the TLA+ Json module cannot read it) an absent datum is an empty object
    v["lm"] = lm.map(lm_bits).unwrap_or(json!({}));
    v["model"] = model.unwrap_or(json!({}));
    v["has_lm"] = json!(lm.is_some());
    if v.get("kind").is_none() {
        v["kind"] = json!("");
    }
    v
}

fn builder_door(case: &Value, native: bool) -> Value {
    catch_unwind(AssertUnwindSafe(|| {
        let mut mb = ModelBuilder::new();
        let mut vars: HashMap<String, Var> = HashMap::new();
        let mut order = vec![];
        for d in case["dom"].as_array().unwrap() {
            let name = d["name"].as_str().unwrap();
            let v = mb.add_var(name, vtype_from(d));
            vars.insert(name.to_string(), v);
            order.push((name.to_string(), v));
        }
        // one extra declared-but-unused variable
        let spare = mb.add_var("spare", rooc::VariableType::IntegerRange(2, 5));
        order.push(("spare".to_string(), spare));
        let ex = |t: &Value| if native { to_native(t, &vars).into_expr() } else { to_expr(t, &vars) };
        let cons: Vec<BuilderConstraint> = case["cons"]
            .as_array()
            .unwrap()
            .iter()
            .map(|c| {
                let name = c["name"].as_str().unwrap_or("").to_string();
                if native {
                    macro_constraint(ex(&c["lhs"]), c["cmp"].as_str().unwrap(), ex(&c["rhs"]), &name, c["assert"].as_bool().unwrap_or(false))
                } else if c["assert"].as_bool().unwrap_or(false) {
                    BuilderConstraint::new_logic_assertion(ex(&c["lhs"]), name)
                } else {
                    BuilderConstraint::new(ex(&c["lhs"]), cmp_from(c["cmp"].as_str().unwrap()), ex(&c["rhs"]), name)
                }
            })
            .collect();
        // the builder is handed the model's own objective and a decoy; the plan decides which wins
        let real_obj = case.get("builder_obj").unwrap_or(&case["obj"]);
        let real_sense = case.get("builder_sense").and_then(|s| s.as_str()).unwrap_or(case["sense"].as_str().unwrap());
        let obj_expr = ex(real_obj);
        let decoy = ex(&case["decoy"]);
        let mut next = 0usize;
        let mut last_obj = "sat".to_string();
        for call in case["plan"]["calls"].as_array().unwrap() {
            match call["call"].as_str().unwrap() {
                "with" => {
                    mb = mb.with(cons[next].clone());
                    next += 1;
                }
                "with_all" => {
                    let k = call["n"].as_u64().unwrap() as usize;
                    mb = mb.with_all(cons[next..next + k].to_vec());
                    next += k;
                }
                _ => {
                    let o = call["obj"].as_str().unwrap();
                    last_obj = o.to_string();
                    mb = match (o, real_sense) {
                        ("sat", _) => mb.satisfy(),
                        ("decoy", _) => mb.minimize(decoy.clone()),
                        ("real", "min") => mb.minimize(obj_expr.clone()),
                        ("real", "max") => mb.maximize(obj_expr.clone()),
                        _ => mb.satisfy(),
                    };
                }
            }
        }
        let _ = last_obj;
        let model = mb.clone().into_model();
        let mj = model_json(&model).ok();
        let lm = match mb.clone().linearize() {
            Ok(lm) => lm,
            Err(e) => return with_lm(fail("linearization_error", e.to_string()), None, mj),
        };
        // door M: the same builder through the MicroLP solver object instead of the automatic choice
        let micro = if native {
            json!({})
        } else {
            match mb.clone().solve_with(rooc::Microlp::new()) {
                Err(rooc::BuilderError::Solver(e)) => solver_err(&e),
                Err(e) => fail("linearization_error", e.to_string()),
                Ok(sol) => {
                    let byname: Vec<(String, Option<f64>)> = order.iter().map(|(n, _)| (n.clone(), sol.solution().value_of(n).map(|x| x.into()))).collect();
                    json!({"out":"solution","kind":"","point":point_json(&byname),"value":num_obs(sol.value())})
                }
            }
        };
        let res = mb.solve_with(Auto);
        let mut out = match res {
            Err(rooc::BuilderError::Solver(e)) => solver_err(&e),
            Err(e) => fail("linearization_error", e.to_string()),
            Ok(sol) => {
                let handles: Vec<(String, Option<f64>)> = order.iter().map(|(n, v)| (n.clone(), sol.numeric_value(*v))).collect();
                let typed: Vec<(String, Option<f64>)> = order.iter().map(|(n, v)| (n.clone(), sol.var_value(*v).map(|x| x.into()))).collect();
                let byname: Vec<(String, Option<f64>)> = order.iter().map(|(n, _)| (n.clone(), sol.solution().value_of(n).map(|x| x.into()))).collect();
                // eval of the objective the specification expects the built model to have
                let expected_obj = ex(&case["obj"]);
                let eval_obj = if case["sense"] == "sat" { 0.0 } else { sol.eval(&expected_obj) };
                let evals: Vec<Value> = cons.iter().map(|c| json!({"lhs":num_obs(sol.eval(&c.lhs)),"rhs":num_obs(sol.eval(&c.rhs))})).collect();
                // expressions that are not part of the model, evaluated at the solution (case field `probes`)
                let probes: Vec<Value> = case["probes"]
                    .as_array()
                    .map(|ps| ps.iter().map(|t| num_obs(sol.eval(&ex(t)))).collect())
                    .unwrap_or_default();
                json!({"out":"solution","point":point_json(&handles),"typed":point_json(&typed),"byname":point_json(&byname),
                       "value":num_obs(sol.value()),"eval_obj":num_obs(eval_obj),"evals":evals,"probes":probes})
            }
        };
        out["microlp"] = micro;
        with_lm(out, Some(&lm), mj)
    }))
    .unwrap_or_else(|_| with_lm(fail("panic", String::new()), None, None))
}

pub fn doors_event(case: &Value) -> Value {
    let mut ev = json!({"id": case["id"], "sense": case["sense"], "obj": case["obj"], "cons": case["cons"], "dom": case["dom"],
                        "plan": case["plan"], "text": case["text"], "ktext": case["ktext"], "probes": case.get("probes").cloned().unwrap_or(json!([])),
                        "illtyped": case.get("illtyped").and_then(|v| v.as_bool()).unwrap_or(false)});
    // ---- B / N: builder (all-Expr operands; native overloads + macros) ----------
    ev["B"] = builder_door(case, false);
    // (a builder door that failed before solving has no MicroLP answer either: same failure)
    ev["M"] = match ev["B"].get("microlp") {
        Some(m) if m.get("out").is_some() => m.clone(),
        _ => json!({"out": ev["B"]["out"], "kind": ev["B"]["kind"], "point": [], "value": num_obs(0.0)}),
    };
    ev["N"] = builder_door(case, true);
    // ---- T / K: text through parser + linearizer + auto_solver ---------------------
    let text_door = |src: &str, constants: Vec<rooc::Constant>| {
        catch_unwind(AssertUnwindSafe(|| {
            let model = match RoocParser::new(src.to_string()).parse_and_transform(constants, &IndexMap::new()) {
                Ok(m) => m,
                Err(e) => return with_lm(fail("front_error", e), None, None),
            };
            let mj = model_json(&model).ok();
            let lm = match rooc::Linearizer::linearize(model) {
                Ok(lm) => lm,
                Err(e) => return with_lm(fail("linearization_error", e.to_string()), None, mj),
            };
            let out = match rooc::auto_solver(&lm) {
                Ok(sol) => milp_solution_json(&sol),
                Err(e) => solver_err(&e),
            };
            with_lm(out, Some(&lm), mj)
        }))
        .unwrap_or_else(|_| with_lm(fail("panic", String::new()), None, None))
    };
    ev["T"] = text_door(case["text"].as_str().unwrap(), vec![]);
    let consts: Vec<rooc::Constant> = case["kconsts"]
        .as_array()
        .map(|a| a.iter().map(|c| rooc::Constant::from_primitive(c["name"].as_str().unwrap(), rooc::Primitive::Number(c["v"].as_f64().unwrap()))).collect())
        .unwrap_or_default();
    ev["K"] = text_door(case["ktext"].as_str().unwrap(), consts);
    // ---- P: pipes ---------------------------------------------------------------------
    ev["P"] = catch_unwind(AssertUnwindSafe(|| {
        let runner = PipeRunner::new(vec![
            Box::new(CompilerPipe::new()),
            Box::new(PreModelPipe::new()),
            Box::new(ModelPipe::new()),
            Box::new(LinearModelPipe::new()),
            Box::new(AutoSolverPipe::new()),
        ]);
        let fns = IndexMap::new();
        let ctx = PipeContext::new(vec![], &fns);
        match runner.run(PipeableData::String(case["text"].as_str().unwrap().to_string()), &ctx) {
            Ok(results) => {
                let mut lm = None;
                let mut out = fail("no_solution_datum", String::new());
                for r in results {
                    match r {
                        PipeableData::LinearModel(m) => lm = Some(m),
                        PipeableData::MILPSolution(s) => out = milp_solution_json(&s),
                        _ => {}
                    }
                }
                with_lm(out, lm.as_ref(), None)
            }
            Err((e, results)) => {
                let mut lm = None;
                for r in results {
                    if let PipeableData::LinearModel(m) = r {
                        lm = Some(m);
                    }
                }
                let text = e.to_string();
                let kind = if text.contains("infeasible") { "Infeasible" } else if text.contains("unbounded") { "Unbounded" } else { "" };
                let mut v = if kind.is_empty() { fail("pipe_error", text) } else { json!({"out":"solver_error","kind":kind,"point":[],"value":num_obs(0.0)}) };
                v = with_lm(v, lm.as_ref(), None);
                v
            }
        }
    }))
    .unwrap_or_else(|_| with_lm(fail("panic", String::new()), None, None));
    // ---- S: one-shot -----------------------------------------------------------------------
    ev["S"] = catch_unwind(AssertUnwindSafe(|| {
        let solver = match rooc::RoocSolver::try_new(case["text"].as_str().unwrap().to_string()) {
            Ok(s) => s,
            Err(e) => return with_lm(fail("front_error", e.to_string()), None, None),
        };
        let out = match solver.solve_using(rooc::auto_solver) {
            Ok(sol) => milp_solution_json(&sol),
            Err(rooc::RoocSolverError::Solver(e)) => solver_err(&e),
            Err(e) => fail("front_error", e.to_string()),
        };
        with_lm(out, None, None)
    }))
    .unwrap_or_else(|_| with_lm(fail("panic", String::new()), None, None));
    ev
}
