//! rv: conformance harness between the TLA+ specifications under /verif/spec
//! and the real rooc crate (path dependency on /repo/packages/rooc).
//! Every subcommand reads cases (ndjson) and writes events (ndjson, integers
//! only) to stdout; panics of the code under test are recorded as data.

mod conv;
mod r#gen;
mod lin;
mod doors;
mod pipes;
mod decls;
mod chains;
mod total;
mod rewrite;
mod text;
mod lp;
mod simplex;
mod bounds;

use serde_json::Value;
use std::io::{BufRead, Write};

fn read_cases(path: &str) -> Vec<Value> {
    let f = std::fs::File::open(path).expect("cases file");
    std::io::BufReader::new(f)
        .lines()
        .map(|l| l.unwrap())
        .filter(|l| !l.trim().is_empty())
        .map(|l| serde_json::from_str(&l).expect("case json"))
        .collect()
}

fn arg(args: &[String], name: &str) -> Option<String> {
    args.iter().position(|a| a == name).and_then(|i| args.get(i + 1).cloned())
}

fn main() {
    // panics of the code under test are caught and recorded; keep stderr quiet
    std::panic::set_hook(Box::new(|_| {}));
    let args: Vec<String> = std::env::args().collect();
    let cmd = args.get(1).map(|s| s.as_str()).unwrap_or("");
    let out = std::io::stdout();
    let mut out = std::io::BufWriter::new(out.lock());
    match cmd {
        // lin --cases F | --random N --seed S [--depth D --vars V --cons C]
        "lin" => {
            let mut cases = vec![];
            if let Some(p) = arg(&args, "--cases") {
                cases.extend(read_cases(&p));
            }
            if let Some(n) = arg(&args, "--random") {
                let n: usize = n.parse().unwrap();
                let seed: u64 = arg(&args, "--seed").map(|s| s.parse().unwrap()).unwrap_or(0);
                let depth: u32 = arg(&args, "--depth").map(|s| s.parse().unwrap()).unwrap_or(2);
                let vars: usize = arg(&args, "--vars").map(|s| s.parse().unwrap()).unwrap_or(3);
                let cons: usize = arg(&args, "--cons").map(|s| s.parse().unwrap()).unwrap_or(3);
                let mut g = r#gen::G::new(seed);
                for i in 0..n {
                    cases.push(g.model(format!("r{seed}_{i}"), depth, vars, cons));
                }
            }
            for c in &cases {
                let id = c["id"].as_str().unwrap_or("?").to_string();
                let model = conv::model_from_case(c);
                let mut ev = lin::lin_event(&id, model);
                // a user variable with a `$` name may be the name the compiler gives an auxiliary: the same
                // model with those variables renamed to plain names (u0, u1, ...) is compiled too, and the
                // number of variables of both compilations is reported
                if let Some(twin) = lin::renamed_twin(c) {
                    ev["plain"] = twin;
                }
                writeln!(out, "{}", ev).unwrap();
            }
        }
        // bounds --cases F | --random N --seed S : hook H1 events for C07 (b)/(c)
        "bounds" => {
            let mut cases = vec![];
            if let Some(p) = arg(&args, "--cases") {
                cases.extend(read_cases(&p));
            }
            if let Some(n) = arg(&args, "--random") {
                let n: usize = n.parse().unwrap();
                let seed: u64 = arg(&args, "--seed").map(|s| s.parse().unwrap()).unwrap_or(0);
                let depth: u32 = arg(&args, "--depth").map(|s| s.parse().unwrap()).unwrap_or(2);
                let mut g = r#gen::G::new(seed ^ 0xb0);
                for i in 0..n {
                    cases.push(g.model(format!("rb{seed}_{i}"), depth, 3, 4));
                }
            }
            for c in &cases {
                let mut evs = vec![];
                bounds::bounds_events(c, &mut evs);
                for ev in evs {
                    writeln!(out, "{}", ev).unwrap();
                }
            }
        }
        // simplex --cases F : direct tableau cases, three driving modes (C14)
        "simplex" => {
            let cases = read_cases(&arg(&args, "--cases").expect("--cases"));
            for c in &cases {
                let mut evs = vec![];
                simplex::tableau_events(c, &mut evs);
                for ev in evs {
                    writeln!(out, "{}", ev).unwrap();
                }
            }
        }
        // std --cases F : into_standard_form events (C13)
        "std" => {
            let cases = read_cases(&arg(&args, "--cases").expect("--cases"));
            for c in &cases {
                writeln!(out, "{}", lp::std_event(c)).unwrap();
            }
        }
        // solve --cases F [--entries a,b] : solver entry points on linear models (C04, C05)
        "solve" => {
            let cases = read_cases(&arg(&args, "--cases").expect("--cases"));
            let ent = arg(&args, "--entries");
            let entries: Vec<&str> = match &ent {
                Some(s) => s.split(',').collect(),
                None => lp::ENTRIES.to_vec(),
            };
            for c in &cases {
                let mut evs = vec![];
                lp::solve_events(c, &entries, &mut evs);
                for ev in evs {
                    writeln!(out, "{}", ev).unwrap();
                }
            }
        }
        // lpexport --cases F : to_lp_format token streams (C17)
        "lpexport" => {
            let cases = read_cases(&arg(&args, "--cases").expect("--cases"));
            for c in &cases {
                writeln!(out, "{}", lp::lpexport_event(c)).unwrap();
            }
        }
        // limits --cases F : solve_milp_lp_problem_with under time limits and gaps (C15)
        "limits" => {
            let cases = read_cases(&arg(&args, "--cases").expect("--cases"));
            for c in &cases {
                let mut evs = vec![];
                lp::limits_events(c, &mut evs);
                for ev in evs {
                    writeln!(out, "{}", ev).unwrap();
                }
            }
        }
        // parse --cases F : real parser on generated expression texts (C09)
        "parse" => {
            let cases = read_cases(&arg(&args, "--cases").expect("--cases"));
            for c in &cases {
                writeln!(out, "{}", text::parse_event(c)).unwrap();
            }
        }
        // lpsimplex --cases F : LP -> standard form -> two-phase start -> steps (C14)
        "lpsimplex" => {
            let cases = read_cases(&arg(&args, "--cases").expect("--cases"));
            for c in &cases {
                let mut evs = vec![];
                simplex::lp_path_events(c, &mut evs);
                for ev in evs {
                    writeln!(out, "{}", ev).unwrap();
                }
            }
        }
        // rewrite --cases F : simplify / flatten on generated trees (C10)
        "rewrite" => {
            let cases = read_cases(&arg(&args, "--cases").expect("--cases"));
            for c in &cases {
                writeln!(out, "{}", rewrite::rewrite_event(c)).unwrap();
            }
        }
        // twins --cases F : two spellings of one model through the text front end (C10)
        "twins" => {
            let cases = read_cases(&arg(&args, "--cases").expect("--cases"));
            for c in &cases {
                let mut evs = vec![];
                text::twin_events(c, &mut evs);
                for ev in evs {
                    writeln!(out, "{}", ev).unwrap();
                }
            }
        }
        // format --cases F : RoocParser::format round trips (C11)
        "format" => {
            let cases = read_cases(&arg(&args, "--cases").expect("--cases"));
            for c in &cases {
                writeln!(out, "{}", text::format_event(c)).unwrap();
            }
        }
        // render --cases F : Model / LinearModel renderings compiled again (C12)
        "render" => {
            let cases = read_cases(&arg(&args, "--cases").expect("--cases"));
            for c in &cases {
                writeln!(out, "{}", text::render_event(c)).unwrap();
            }
        }
        // rownames --cases F : names of the compiled rows of NameGen programs, in order (C08)
        "rownames" => {
            let cases = read_cases(&arg(&args, "--cases").expect("--cases"));
            for c in &cases {
                writeln!(out, "{}", text::rownames_event(c)).unwrap();
            }
        }
        // e2e --cases F : RoocSolver::solve_using(auto_solver) on rendered programs (C03)
        "e2e" => {
            let cases = read_cases(&arg(&args, "--cases").expect("--cases"));
            for c in &cases {
                writeln!(out, "{}", text::e2e_event(c)).unwrap();
            }
        }
        // total --cases F [--limit-ms N] : all stages per case in a child process (C18)
        "total" => {
            let cases = read_cases(&arg(&args, "--cases").expect("--cases"));
            let limit: u64 = arg(&args, "--limit-ms").map(|s| s.parse().unwrap()).unwrap_or(5000);
            let exe = std::env::current_exe().unwrap().to_string_lossy().to_string();
            for c in &cases {
                writeln!(out, "{}", total::run_case(&exe, c, std::time::Duration::from_millis(limit))).unwrap();
            }
        }
        "total-one" => {
            let mut src = String::new();
            std::io::Read::read_to_string(&mut std::io::stdin(), &mut src).unwrap();
            drop(out);
            // run on a thread with a normal-sized stack: a stack overflow must be observable
            if let Some(n) = arg(&args, "--builder-sum") {
                total::run_builder_sum(n.parse().unwrap());
                std::process::exit(0);
            }
            if args.iter().any(|a| a == "--thread") {
                let h = std::thread::Builder::new().stack_size(2 * 1024 * 1024).spawn(move || total::run_one(&src)).unwrap();
                let _ = h.join();
            } else {
                total::run_one(&src);
            }
            std::process::exit(0);
        }
        // expand --cases F : program with constructs vs unrolled twin (C06)
        "expand" => {
            let cases = read_cases(&arg(&args, "--cases").expect("--cases"));
            for c in &cases {
                writeln!(out, "{}", text::expand_event(c)).unwrap();
            }
        }
        // typecheck --cases F : type_check then transform on perturbed programs (C19)
        "typecheck" => {
            let cases = read_cases(&arg(&args, "--cases").expect("--cases"));
            for c in &cases {
                writeln!(out, "{}", text::typecheck_event(c)).unwrap();
            }
        }
        // doors --cases F : one abstract model through builder, text, API constants, pipes, one-shot (C16)
        "doors" => {
            let cases = read_cases(&arg(&args, "--cases").expect("--cases"));
            for c in &cases {
                writeln!(out, "{}", doors::doors_event(c)).unwrap();
            }
        }
        // decls --cases F : one declaration through vars!, the builder methods and the text (C16)
        "decls" => {
            let cases = read_cases(&arg(&args, "--cases").expect("--cases"));
            for c in &cases {
                writeln!(out, "{}", decls::decls_event(c)).unwrap();
            }
        }
        // chains --cases F : chains of -> and <-> through constraint!, expr! and the text (C16)
        "chains" => {
            let cases = read_cases(&arg(&args, "--cases").expect("--cases"));
            for c in &cases {
                writeln!(out, "{}", chains::chains_event(c)).unwrap();
            }
        }
        // pipes --cases F : arbitrary pipe sequences of Pipes.tla through the real PipeRunner (C16)
        "pipes" => {
            let cases = read_cases(&arg(&args, "--cases").expect("--cases"));
            for c in &cases {
                writeln!(out, "{}", pipes::pipes_event(c)).unwrap();
            }
        }
        _ => {
            eprintln!("usage: rv <lin> ...");
            std::process::exit(2);
        }
    }
    out.flush().unwrap();
    drop(out);
    std::process::exit(0);
}
