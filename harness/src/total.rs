//! C18: every public stage terminates with a result or a structured error.
//! `total` runs each case in a CHILD PROCESS (`rv total-one`) under a watchdog so
//! that aborts, stack overflows and hangs are observed instead of killing the run.

use indexmap::IndexMap;
use rooc::RoocParser;
use serde_json::{Value, json};
use std::io::{Read, Write};
use std::panic::{AssertUnwindSafe, catch_unwind};
use std::process::{Command, Stdio};
use std::time::{Duration, Instant};

pub const STAGES: [&str; 7] = ["parse", "format", "type_check", "transform", "linearize", "standardize", "solve"];

fn stage<T>(f: impl FnOnce() -> Result<T, String>) -> (String, Option<T>, String) {
    match catch_unwind(AssertUnwindSafe(f)) {
        Err(p) => {
            let msg = p.downcast_ref::<String>().cloned().or_else(|| p.downcast_ref::<&str>().map(|s| s.to_string())).unwrap_or_default();
            ("panic".into(), None, msg)
        }
        Ok(Err(e)) => ("err".into(), None, e),
        Ok(Ok(v)) => ("ok".into(), Some(v), String::new()),
    }
}

/// Runs all stages on one source text (in this process); prints one JSON line per stage
/// as it completes, so that a parent can tell where a crash or hang happened.
pub fn run_one(src: &str) {
    let out = std::io::stdout();
    let mut emit = |name: &str, res: &str, why: &str, render: &str, ms: u128| {
        let mut o = out.lock();
        writeln!(o, "{}", json!({"stage":name,"res":res,"why":why.chars().take(200).collect::<String>(),"render":render,"ms":ms as u64})).unwrap();
        o.flush().unwrap();
    };
    let parser = RoocParser::new(src.to_string());
    let t = Instant::now();
    // parse (+ rendering of its error against the source)
    let (r, pre, why) = stage(|| parser.parse().map_err(|e| {
        let rendered = catch_unwind(AssertUnwindSafe(|| e.to_string_from_source(src)));
        if rendered.is_err() { "RENDER-PANIC".to_string() } else { e.to_error_string() }
    }));
    let render = if why == "RENDER-PANIC" { "panic" } else { "ok" };
    emit("parse", &r, &why, render, t.elapsed().as_millis());
    let t = Instant::now();
    let (r2, _, why2) = stage(|| parser.format().map_err(|e| e.to_error_string()));
    emit("format", &r2, &why2, "ok", t.elapsed().as_millis());
    if pre.is_none() {
        return;
    }
    // type_check and parse_and_transform render their error against the source themselves
    // (trace_from_source): a failure of the rendering shows up as a panic of the stage
    let t = Instant::now();
    let (r3, _, why3) = stage(|| parser.type_check(&vec![], &IndexMap::new()));
    emit("type_check", &r3, &why3, "ok", t.elapsed().as_millis());
    let t = Instant::now();
    let (r4, model, why4) = stage(|| parser.parse_and_transform(vec![], &IndexMap::new()));
    emit("transform", &r4, &why4, "ok", t.elapsed().as_millis());
    let Some(model) = model else { return };
    let t = Instant::now();
    let (r5, lm, why5) = stage(|| rooc::Linearizer::linearize(model).map_err(|e| e.to_string()));
    emit("linearize", &r5, &why5, "ok", t.elapsed().as_millis());
    let Some(lm) = lm else { return };
    let t = Instant::now();
    let lm2 = lm.clone();
    let (r6, _, why6) = stage(|| lm2.into_standard_form().map(|s| s.to_string()).map_err(|e| e.to_string()));
    emit("standardize", &r6, &why6, "ok", t.elapsed().as_millis());
    let t = Instant::now();
    let (r7, _, why7) = stage(|| rooc::auto_solver(&lm).map(|s| s.to_string()).map_err(|e| e.to_string()));
    emit("solve", &r7, &why7, "ok", t.elapsed().as_millis());
}

/// The builder stages for `builder_sum` cases: build + linearize, then solve.
pub fn run_builder_sum(n: usize) {
    let out = std::io::stdout();
    let mut emit = |name: &str, res: &str, why: &str, ms: u128| {
        let mut o = out.lock();
        writeln!(o, "{}", json!({"stage":name,"res":res,"why":why.chars().take(200).collect::<String>(),"render":"ok","ms":ms as u64})).unwrap();
        o.flush().unwrap();
    };
    for st in ["parse", "format", "type_check", "transform"] {
        emit(st, "ok", "", 0);
    }
    let t = Instant::now();
    let mut mb = rooc::ModelBuilder::new();
    let xs = mb.add_vars("x", n, rooc::VariableType::NonNegativeReal(0.0, f64::INFINITY));
    let first: rooc::Expr = xs[0].into();
    let mb = mb
        .minimize(rooc::builder::sum(xs.iter().copied()))
        .with(rooc::BuilderConstraint::new(first, rooc::Comparison::GreaterOrEqual, rooc::Expr::Number(1.0), "c".to_string()));
    let mb2 = mb.clone();
    let (r, lm, why) = stage(|| mb2.linearize().map_err(|e| e.to_string()));
    emit("linearize", &r, &why, t.elapsed().as_millis());
    if lm.is_none() {
        return;
    }
    emit("standardize", "ok", "", 0);
    let t = Instant::now();
    let (r2, _, why2) = stage(|| mb.solve_with(rooc::Auto).map(|s| s.value().to_string()).map_err(|e| e.to_string()));
    emit("solve", &r2, &why2, t.elapsed().as_millis());
}

/// Parent: one child per case, watchdog per case (`limit` for the whole child).
pub fn run_case(exe: &str, case: &Value, limit: Duration) -> Value {
    let src = case["text"].as_str().unwrap_or("");
    // `stack: "thread"`: the stages run on a spawned thread with the default stack of a Rust thread
    // (2 MiB) instead of the main thread of the child (8 MiB): what a caller on a worker thread gets
    let mut cmd = Command::new(exe);
    cmd.arg("total-one");
    if case["stack"] == "thread" {
        cmd.arg("--thread");
    }
    // `builder_sum: n`: the model `min sum(x_0 .. x_{n-1}) s.t. x_0 >= 1` built with the fluent builder
    // (helper sum()) instead of a source text
    if let Some(n) = case.get("builder_sum").and_then(|n| n.as_u64()) {
        cmd.arg("--builder-sum").arg(n.to_string());
    }
    let mut child = cmd
        .stdin(Stdio::piped())
        .stdout(Stdio::piped())
        .stderr(Stdio::null())
        .spawn()
        .expect("spawn child");
    child.stdin.take().unwrap().write_all(src.as_bytes()).unwrap();
    let start = Instant::now();
    let mut timed_out = false;
    let status = loop {
        match child.try_wait().unwrap() {
            Some(s) => break Some(s),
            None => {
                if start.elapsed() > limit {
                    let _ = child.kill();
                    let _ = child.wait();
                    timed_out = true;
                    break None;
                }
                std::thread::sleep(Duration::from_millis(2));
            }
        }
    };
    let mut outs = String::new();
    child.stdout.take().unwrap().read_to_string(&mut outs).ok();
    let mut stages: Vec<Value> = outs.lines().filter_map(|l| serde_json::from_str(l).ok()).collect();
    // the stage that was running when the child died / was killed
    let finished_all = stages.iter().any(|s| s["res"] != "ok" && s["stage"] != "format" && s["stage"] != "type_check" && s["stage"] != "standardize")
        || stages.len() == STAGES.len();
    let abnormal = timed_out || status.map(|s| !s.success()).unwrap_or(true);
    if abnormal {
        let next = STAGES.iter().find(|n| !stages.iter().any(|s| s["stage"] == **n)).unwrap_or(&"exit");
        stages.push(json!({"stage":next,"res": if timed_out {"timeout"} else {"abort"},"why":"","render":"ok","ms":start.elapsed().as_millis() as u64}));
    }
    let _ = finished_all;
    json!({"id":case["id"],"text":src,"len":src.len(),"stages":stages,"depth":case.get("depth").cloned().unwrap_or(json!(0)),"kind":case.get("kind").cloned().unwrap_or(json!(""))})
}
