//! LinearModel-level cases: {id, sense, obj:[int], off:int, den:int,
//! vars:[{name,kind,lo,hi}], rows:[{a:[int], cmp, b:int, name}]}

use crate::conv::*;
use indexmap::IndexMap;
use rooc::model_transformer::DomainVariable;
use rooc::{InputSpan, LinearConstraint, LinearModel};
use serde_json::{Value, json};
use std::panic::{AssertUnwindSafe, catch_unwind};

pub fn lm_from_case(case: &Value) -> LinearModel {
    let den = case["den"].as_i64().unwrap_or(1) as f64;
    let f = |v: &Value| v.as_i64().unwrap() as f64 / den;
    let mut names = vec![];
    let mut domain: IndexMap<String, DomainVariable> = IndexMap::new();
    for v in case["vars"].as_array().unwrap() {
        let name = v["name"].as_str().unwrap().to_string();
        let mut dv = DomainVariable::new(vtype_from(v), InputSpan::default());
        dv.increment_usage();
        domain.insert(name.clone(), dv);
        names.push(name);
    }
    let rows: Vec<LinearConstraint> = case["rows"]
        .as_array()
        .unwrap()
        .iter()
        .map(|r| {
            LinearConstraint::new_with_name(
                r["a"].as_array().unwrap().iter().map(f).collect(),
                cmp_from(r["cmp"].as_str().unwrap()),
                f(&r["b"]),
                r["name"].as_str().unwrap_or("").to_string(),
            )
        })
        .collect();
    LinearModel::new_from_parts(
        case["obj"].as_array().unwrap().iter().map(f).collect(),
        sense_from(case["sense"].as_str().unwrap()),
        f(&case["off"]),
        rows,
        names,
        domain,
    )
}

fn solver_err_kind(e: &rooc::SolverError) -> String {
    let s = format!("{:?}", e);
    s.split(|c: char| !c.is_alphanumeric()).next().unwrap_or("").to_string()
}

/// C13: into_standard_form observed through hook H2.
pub fn std_event(case: &Value) -> Value {
    let mut ev = case.clone();
    let lm = lm_from_case(case);
    let res = catch_unwind(AssertUnwindSafe(|| lm.into_standard_form()));
    match res {
        Err(_) => {
            ev["out"] = json!("panic");
        }
        Ok(Err(e)) => {
            ev["out"] = json!("err");
            ev["errkind"] = json!(solver_err_kind(&e));
        }
        Ok(Ok(std)) => {
            let mut rows = vec![];
            let mut ok = true;
            for c in std.verif_constraints() {
                let mut vals = c.coefficients().clone();
                vals.push(c.rhs());
                match scale_row(&vals) {
                    Ok((ints, den)) => {
                        let n = ints.len() - 1;
                        rows.push(json!({"a":ints[..n],"b":ints[n],"scale":den}));
                    }
                    Err(_) => ok = false,
                }
            }
            let mut vals = std.verif_objective().clone();
            vals.push(std.verif_objective_offset());
            match scale_row(&vals) {
                Ok((ints, den)) if ok => {
                    let n = ints.len() - 1;
                    ev["out"] = json!("ok");
                    ev["std"] = json!({
                        "vars": std.verif_variables(),
                        "rows": rows,
                        "obj": ints[..n],
                        "off": ints[n],
                        "oden": den,
                        "flip": std.verif_flip_objective(),
                        "text": std.to_string(),
                    });
                }
                _ => {
                    ev["out"] = json!("unverifiable");
                }
            }
        }
    }
    ev
}
