//! LinearModel-level cases: {id, sense, obj:[int], off:int, den:int,
//! vars:[{name,kind,lo,hi}], rows:[{a:[int], cmp, b:int, name}]}

use crate::conv::*;
use indexmap::IndexMap;
use rooc::model_transformer::DomainVariable;
use rooc::{InputSpan, LinearConstraint, LinearModel};
use serde_json::{Value, json};
use std::panic::{AssertUnwindSafe, catch_unwind};

pub fn lm_from_case(case: &Value) -> LinearModel {
    let den = case["den"].as_i64().unwrap_or(1) as f64;
    // a number is an integer over `den`, or {"f": float} for magnitudes beyond that
    let f = |v: &Value| match v.get("f") {
        Some(x) => x.as_f64().unwrap(),
        None => v.as_i64().unwrap() as f64 / den,
    };
    let mut names = vec![];
    let mut domain: IndexMap<String, DomainVariable> = IndexMap::new();
    // the domain is a map by name: the order of its entries carries no meaning.  `domorder: "rev"`
    // fills it in the reverse of the column order (the compiler, too, keeps declaration order there
    // while it sorts the columns).
    let vars: Vec<&Value> = case["vars"].as_array().unwrap().iter().collect();
    for v in &vars {
        names.push(v["name"].as_str().unwrap().to_string());
    }
    let order: Vec<&&Value> = if case["domorder"] == "rev" { vars.iter().rev().collect() } else { vars.iter().collect() };
    for v in order {
        let name = v["name"].as_str().unwrap().to_string();
        let mut dv = DomainVariable::new(vtype_from(v), InputSpan::default());
        dv.increment_usage();
        domain.insert(name, dv);
    }
    let rows: Vec<LinearConstraint> = case["rows"]
        .as_array()
        .unwrap()
        .iter()
        .map(|r| {
            LinearConstraint::new_with_name(
                r["a"].as_array().unwrap().iter().map(f).collect(),
                cmp_from(r["cmp"].as_str().unwrap()),
                f(&r["b"]),
                r["name"].as_str().unwrap_or("").to_string(),
            )
        })
        .collect();
    LinearModel::new_from_parts(
        case["obj"].as_array().unwrap().iter().map(f).collect(),
        sense_from(case["sense"].as_str().unwrap()),
        f(&case["off"]),
        rows,
        names,
        domain,
    )
}

fn solver_err_kind(e: &rooc::SolverError) -> String {
    let s = format!("{:?}", e);
    s.split(|c: char| !c.is_alphanumeric()).next().unwrap_or("").to_string()
}

/// C13: into_standard_form observed through hook H2.
pub fn std_event(case: &Value) -> Value {
    let mut ev = case.clone();
    let lm = lm_from_case(case);
    let res = catch_unwind(AssertUnwindSafe(|| lm.into_standard_form()));
    match res {
        Err(_) => {
            ev["out"] = json!("panic");
        }
        Ok(Err(e)) => {
            ev["out"] = json!("err");
            ev["errkind"] = json!(solver_err_kind(&e));
        }
        Ok(Ok(std)) => {
            let mut rows = vec![];
            let mut ok = true;
            for c in std.verif_constraints() {
                let mut vals = c.coefficients().clone();
                vals.push(c.rhs());
                match scale_row(&vals) {
                    Ok((ints, den)) => {
                        let n = ints.len() - 1;
                        rows.push(json!({"a":ints[..n],"b":ints[n],"scale":den}));
                    }
                    Err(_) => ok = false,
                }
            }
            let mut vals = std.verif_objective().clone();
            vals.push(std.verif_objective_offset());
            match scale_row(&vals) {
                Ok((ints, den)) if ok => {
                    let n = ints.len() - 1;
                    ev["out"] = json!("ok");
                    ev["std"] = json!({
                        "vars": std.verif_variables(),
                        "rows": rows,
                        "obj": ints[..n],
                        "off": ints[n],
                        "oden": den,
                        "flip": std.verif_flip_objective(),
                        "text": std.to_string(),
                    });
                }
                _ => {
                    ev["out"] = json!("unverifiable");
                }
            }
        }
    }
    ev
}

/// Smallest d <= 500 with |f - n/d| <= 1e-6 * max(1, |f|): the unique small
/// rational next to a float answer (two such rationals differ by >= 4e-6).
pub fn snap(f: f64) -> Option<(i64, i64)> {
    if !f.is_finite() || f.abs() > 1.0e6 {
        return None;
    }
    let tol = 1e-6 * f.abs().max(1.0);
    for d in 1..=500i64 {
        let n = (f * d as f64).round();
        if (f - n / d as f64).abs() <= tol {
            return Some((n as i64, d));
        }
    }
    None
}

/// A float answer for TLC: exact small rational when one exists, and always the
/// value rounded to 1e-4 units for the coarse comparison.
pub fn num_obs(f: f64) -> Value {
    let coarse = if f.is_finite() && f.abs() < 2.0e5 { (f * 1.0e4).round() as i64 } else { 0 };
    let usable = f.is_finite() && f.abs() < 2.0e5;
    match snap(f) {
        Some((n, d)) if n.abs() < (1 << 24) => json!({"snap":true,"n":n,"d":d,"c":coarse,"ok":usable}),
        _ => json!({"snap":false,"n":0,"d":1,"c":coarse,"ok":usable}),
    }
}

fn err_obs(e: &rooc::SolverError) -> Value {
    json!({"kind": solver_err_kind(e), "text": e.to_string()})
}

fn solution_obs<T: Copy + Into<f64> + serde::Serialize + serde::de::DeserializeOwned + std::fmt::Display>(
    s: &rooc::LpSolution<T>,
) -> Value {
    let point: Vec<Value> = s
        .assignment()
        .iter()
        .map(|a| {
            let f: f64 = a.value.into();
            json!({"name":a.name,"v":num_obs(f)})
        })
        .collect();
    let cons: Vec<Value> = s.constraints().iter().map(|(k, v)| json!({"name":k,"v":num_obs(*v)})).collect();
    let duals: Vec<Value> = s.shadow_prices().iter().map(|(k, v)| json!({"name":k,"v":num_obs(*v)})).collect();
    json!({
        "point": point,
        "cons": cons,
        "duals": duals,
        "value": num_obs(s.value()),
        "status": format!("{:?}", s.status()),
    })
}

pub const WATCHDOG_S: u64 = 10;
pub const ENTRIES: [&str; 5] = ["milp", "auto", "real_microlp", "clarabel", "simplex"];

/// C04 / C05: one event per (model, solver entry point).
pub fn solve_events(case: &Value, entries: &[&str], out: &mut Vec<Value>) {
    let lm = lm_from_case(case);
    for entry in entries {
        let mut ev = case.clone();
        ev["entry"] = json!(entry);
        ev["id"] = json!(format!("{}:{}", case["id"].as_str().unwrap_or("?"), entry));
        // each call runs in its own thread under a watchdog: a solver that does not
        // return within WATCHDOG is recorded as a timeout (the thread is abandoned)
        let lmc = lm.clone();
        let entry_s = entry.to_string();
        let text_lm: Option<Result<rooc::LinearModel, String>> = if *entry == "text_clarabel" {
            case.get("text").and_then(|t| t.as_str()).map(|t| {
                rooc::RoocParser::new(t.to_string())
                    .parse_and_transform(vec![], &indexmap::IndexMap::new())
                    .and_then(|m| rooc::Linearizer::linearize(m).map_err(|e| e.to_string()))
            })
        } else {
            None
        };
        let text_lm_obs = text_lm.clone();
        let (tx, rx) = std::sync::mpsc::channel();
        std::thread::Builder::new()
            .stack_size(64 << 20)
            .spawn(move || {
                let lmr = &lmc;
                let res: Result<Result<Value, rooc::SolverError>, _> = catch_unwind(AssertUnwindSafe(|| match entry_s.as_str() {
                    "milp" => rooc::solve_milp_lp_problem(lmr).map(|s| solution_obs(&s)),
                    "auto" => rooc::auto_solver(lmr).map(|s| solution_obs(&s)),
                    "real_microlp" => rooc::solve_real_lp_problem_micro_lp(lmr).map(|s| solution_obs(&s)),
                    "clarabel" => rooc::solve_real_lp_problem_clarabel(lmr).map(|s| solution_obs(&s)),
                    "simplex" => rooc::solve_real_lp_problem_slow_simplex(lmr, 1000).map(|s| solution_obs(&s)),
                    // the same model as source text through the front end and the linearizer (case field `text`)
                    "text_clarabel" => match text_lm.as_ref() {
                        Some(Ok(m)) => rooc::solve_real_lp_problem_clarabel(m).map(|s| solution_obs(&s)),
                        Some(Err(e)) => Err(rooc::SolverError::Other(format!("front end: {e}"))),
                        None => Err(rooc::SolverError::Other("no text".to_string())),
                    },
                    other => panic!("entry {other}"),
                }));
                let _ = tx.send(res.map_err(|_| ()));
            })
            .unwrap();
        // for the text door: the variable ranges of the COMPILED linear model (the compiler may have
        // tightened them by bound inference) as bounds in the case's own format
        if let Some(Ok(m)) = &text_lm_obs {
            let b = |x: f64, neg_inf: bool| {
                if x.is_infinite() {
                    json!({"inf": if neg_inf { -1 } else { 1 }, "n": 0, "d": 1})
                } else {
                    let o = num_obs(x);
                    if o["snap"] == json!(true) { json!({"inf":0,"n":o["n"],"d":o["d"]}) } else { json!({"inf":0,"n":0,"d":0}) }
                }
            };
            ev["cvars"] = m
                .variables()
                .iter()
                .map(|n| {
                    let (k, lo, hi) = match m.domain().get(n).unwrap().get_type() {
                        rooc::VariableType::Boolean => ("bool", 0.0, 1.0),
                        rooc::VariableType::IntegerRange(a, b) => ("int", *a as f64, *b as f64),
                        rooc::VariableType::Real(a, b) => ("real", *a, *b),
                        rooc::VariableType::NonNegativeReal(a, b) => ("nnreal", a.max(0.0), *b),
                    };
                    json!({"name": n, "kind": k, "lo": b(lo, true), "hi": b(hi, false)})
                })
                .collect();
            ev["crows"] = json!(m.constraints().len());
        }
        let res = match rx.recv_timeout(std::time::Duration::from_secs(WATCHDOG_S)) {
            Ok(r) => r,
            Err(_) => {
                ev["out"] = json!("timeout");
                out.push(ev);
                continue;
            }
        };
        match res {
            Err(_) => ev["out"] = json!("panic"),
            Ok(Err(e)) => {
                ev["out"] = json!("error");
                ev["err"] = err_obs(&e);
            }
            Ok(Ok(sol)) => {
                ev["out"] = json!("solution");
                ev["sol"] = sol;
            }
        }
        out.push(ev);
    }
}

/// A number for identity comparison in TLA+: sign and the bit pattern of the
/// magnitude in three 22-bit chunks (no arithmetic is done on it there).
pub fn numrec(x: f64) -> Value {
    let s = if x.is_nan() { 2 } else if x > 0.0 { 1 } else if x < 0.0 { -1 } else { 0 };
    let bits = x.abs().to_bits();
    json!({"s": s, "m": [(bits >> 44) as i64, ((bits >> 22) & 0x3f_ffff) as i64, (bits & 0x3f_ffff) as i64]})
}

/// C17: export to CPLEX-LP text; the text is split on white space, numeric
/// tokens are parsed with the standard float parser, a trailing ':' marks a label.
pub fn lpexport_event(case: &Value) -> Value {
    let lm = lm_from_case(case);
    let mut ev = json!({"id": case["id"], "sense": case["sense"]});
    ev["vars"] = lm
        .variables()
        .iter()
        .map(|n| {
            let t = lm.domain().get(n).unwrap().get_type();
            let (k, lo, hi) = match t {
                rooc::VariableType::Boolean => ("bool", 0.0, 1.0),
                rooc::VariableType::IntegerRange(a, b) => ("int", *a as f64, *b as f64),
                rooc::VariableType::Real(a, b) => ("real", *a, *b),
                rooc::VariableType::NonNegativeReal(a, b) => ("nnreal", a.max(0.0), *b),
            };
            json!({"name": n, "kind": k, "lo": numrec(lo), "hi": numrec(hi)})
        })
        .collect();
    ev["obj"] = lm.objective().iter().map(|x| numrec(*x)).collect();
    ev["off"] = numrec(lm.objective_offset());
    ev["rows"] = lm
        .constraints()
        .iter()
        .map(|c| json!({"a": c.coefficients().iter().map(|x| numrec(*x)).collect::<Vec<_>>(), "b": numrec(c.rhs()),
                        "cmp": cmp_name(c.constraint_type()), "name": c.name()}))
        .collect();
    let res = catch_unwind(AssertUnwindSafe(|| lm.to_lp_format()));
    match res {
        Err(_) => ev["out"] = json!("panic"),
        Ok(text) => {
            ev["out"] = json!("ok");
            ev["text"] = json!(text);
            ev["tokens"] = text
                .split_whitespace()
                .map(|t| {
                    let (body, label) = match t.strip_suffix(':') {
                        Some(b) if !b.is_empty() => (b, true),
                        _ => (t, false),
                    };
                    let looks_numeric = body.chars().next().map(|c| c.is_ascii_digit() || c == '.' || ((c == '-' || c == '+') && body.len() > 1)).unwrap_or(false);
                    match (looks_numeric && !label, body.parse::<f64>()) {
                        (true, Ok(f)) => json!({"s": body, "num": true, "v": numrec(f), "label": false}),
                        _ => json!({"s": body, "num": false, "v": numrec(0.0), "label": label}),
                    }
                })
                .collect();
        }
    }
    ev
}

/// C15: solve_milp_lp_problem_with under time limits and MIP gaps.
/// case["opts"] = [{"limit_ns": int|null, "gap": "none"|"nan"|"inf"|"-inf"|{"n","d"}}]
pub fn limits_events(case: &Value, out: &mut Vec<Value>) {
    let lm = lm_from_case(case);
    for (k, opt) in case["opts"].as_array().unwrap().iter().enumerate() {
        let mut ev = case.clone();
        ev.as_object_mut().unwrap().remove("opts");
        ev["id"] = json!(format!("{}/{}", case["id"].as_str().unwrap_or("?"), k));
        ev["opt"] = opt.clone();
        ev["entry"] = json!("milp_with");
        let gap = match &opt["gap"] {
            Value::String(s) if s == "none" => None,
            Value::String(s) if s == "nan" => Some(f64::NAN),
            Value::String(s) if s == "inf" => Some(f64::INFINITY),
            Value::String(s) if s == "-inf" => Some(f64::NEG_INFINITY),
            g => Some(g["n"].as_i64().unwrap() as f64 / g["d"].as_i64().unwrap() as f64),
        };
        // 2e9 ns stands for the largest representable limit
        let limit = opt["limit_ns"].as_u64().map(|ns| if ns == 2_000_000_000 { std::time::Duration::MAX } else { std::time::Duration::from_nanos(ns) });
        let options = rooc::MilpOptions { mip_gap: gap, time_limit: limit };
        let lmc = lm.clone();
        let via_builder = opt["builder"].as_bool().unwrap_or(false);
        let (tx, rx) = std::sync::mpsc::channel();
        std::thread::Builder::new()
            .stack_size(64 << 20)
            .spawn(move || {
                let res = catch_unwind(AssertUnwindSafe(|| {
                    if via_builder {
                        use rooc::Solver;
                        let mut s = rooc::Microlp::new();
                        if let Some(g) = options.mip_gap {
                            s = s.with_mip_gap(g);
                        }
                        if let Some(l) = options.time_limit {
                            s = s.with_time_limit(l);
                        }
                        s.solve(&lmc).map(|s| solution_obs(&s))
                    } else {
                        rooc::solve_milp_lp_problem_with(&lmc, &options).map(|s| solution_obs(&s))
                    }
                }));
                let _ = tx.send(res.map_err(|_| ()));
            })
            .unwrap();
        match rx.recv_timeout(std::time::Duration::from_secs(60)) {
            Err(_) => ev["out"] = json!("timeout"),
            Ok(Err(_)) => ev["out"] = json!("panic"),
            Ok(Ok(Err(e))) => {
                ev["out"] = json!("error");
                ev["err"] = err_obs(&e);
            }
            Ok(Ok(Ok(sol))) => {
                ev["out"] = json!("solution");
                ev["sol"] = sol;
            }
        }
        out.push(ev);
    }
}
