//! C07 (b)/(c): observe the real bounds analyzer through hook H1.

use crate::conv::*;
use rooc::bounds_verif_hooks;
use rooc::model_transformer::Exp;
use serde_json::{Value, json};
use std::panic::{AssertUnwindSafe, catch_unwind};

const GRID: f64 = 1024.0;
const CLAMP: f64 = 4000.0;

/// Lower bound rounded outward (down) / inward (up) onto the 1/1024 grid.
fn round_bound(x: f64, down: bool) -> Value {
    if x.is_nan() {
        return json!({"inf":0,"n":0,"d":1,"nan":true});
    }
    if x == f64::INFINITY || (x > CLAMP && !down) {
        return json!({"inf":1,"n":0,"d":1});
    }
    if x == f64::NEG_INFINITY || (x < -CLAMP && down) {
        return json!({"inf":-1,"n":0,"d":1});
    }
    let x = x.clamp(-CLAMP, CLAMP);
    let n = if down { (x * GRID).floor() } else { (x * GRID).ceil() };
    json!({"inf":0,"n":n as i64,"d":GRID as i64})
}

/// A bound moved INWARD onto the 1/1024 grid, exactly (x * 1024 is exact): for a value v on that
/// grid,  v >= lower  iff  v >= grid_inward(lower, true)  and  v <= upper  iff  v <= grid_inward(upper,
/// false).  Every sample value is on the grid and at most 32768 in magnitude, so bounds beyond
/// +-40000 are represented by +-40000 or an infinite side without changing any membership.
fn grid_inward(x: f64, is_lower: bool) -> Value {
    const FAR: f64 = 40000.0;
    if x.is_nan() {
        return json!({"inf":0,"n":0,"d":1,"nan":true});
    }
    if is_lower {
        if x < -FAR {
            return json!({"inf":-1,"n":0,"d":1});
        }
        let n = if x > FAR { FAR * GRID } else { (x * GRID).ceil() };
        json!({"inf":0,"n":n as i64,"d":GRID as i64})
    } else {
        if x > FAR {
            return json!({"inf":1,"n":0,"d":1});
        }
        let n = if x < -FAR { -FAR * GRID } else { (x * GRID).floor() };
        json!({"inf":0,"n":n as i64,"d":GRID as i64})
    }
}

/// Bound rounded inward: lower bounds up (`up` = true), upper bounds down;
/// a value within 1e-6 grid units of a grid point counts as that point.
fn round_inward(x: f64, up: bool) -> Value {
    if x.is_nan() {
        return json!({"inf":0,"n":0,"d":1,"nan":true});
    }
    if x == f64::INFINITY || x > CLAMP {
        return if up { json!({"inf":0,"n":(CLAMP * GRID) as i64,"d":GRID as i64}) } else { json!({"inf":1,"n":0,"d":1}) };
    }
    if x == f64::NEG_INFINITY || x < -CLAMP {
        return if up { json!({"inf":-1,"n":0,"d":1}) } else { json!({"inf":0,"n":(-CLAMP * GRID) as i64,"d":GRID as i64}) };
    }
    let eps = 1e-6;
    let n = if up { (x * GRID - eps).ceil() } else { (x * GRID + eps).floor() };
    json!({"inf":0,"n":n as i64,"d":GRID as i64})
}

fn subtrees<'a>(e: &'a Exp, out: &mut Vec<&'a Exp>) {
    out.push(e);
    match e {
        Exp::Number(_) | Exp::Variable(_) => {}
        Exp::Abs(a) | Exp::Not(a) | Exp::UnOp(_, a) => subtrees(a, out),
        Exp::Min(v) | Exp::Max(v) | Exp::And(v) | Exp::Or(v) => v.iter().for_each(|x| subtrees(x, out)),
        Exp::Xor(a, b) | Exp::Implies(a, b) | Exp::Iff(a, b) | Exp::BinOp(_, a, b) => {
            subtrees(a, out);
            subtrees(b, out);
        }
    }
}

fn json_subtrees<'a>(t: &'a Value, out: &mut Vec<&'a Value>) {
    out.push(t);
    for k in ["a", "b"] {
        if let Some(c) = t.get(k) {
            json_subtrees(c, out);
        }
    }
    if let Some(args) = t.get("args").and_then(|a| a.as_array()) {
        for c in args {
            json_subtrees(c, out);
        }
    }
}

pub fn bounds_events(case: &Value, out: &mut Vec<Value>) {
    let id = case["id"].as_str().unwrap_or("?").to_string();
    let model = model_from_case(case);
    // the event carries the case's own (exact, possibly non-dyadic) trees
    let sdom: Vec<Value> = case["dom"]
        .as_array()
        .unwrap()
        .iter()
        .map(|d| {
            let mut d = d.clone();
            let name = d["name"].as_str().unwrap().to_string();
            d["used"] = json!(model.domain().get(&name).map(|v| v.is_used()).unwrap_or(false));
            d
        })
        .collect();
    let src = json!({"sense":case["sense"],"obj":case["obj"],"cons":case["cons"],"sdom":sdom});
    let mut trees: Vec<&Value> = vec![];
    json_subtrees(&case["obj"], &mut trees);
    for c in case["cons"].as_array().unwrap() {
        json_subtrees(&c["lhs"], &mut trees);
        if !c["assert"].as_bool().unwrap_or(false) {
            json_subtrees(&c["rhs"], &mut trees);
        }
    }
    let mut seen = std::collections::HashSet::new();
    let trees: Vec<&Value> = trees
        .into_iter()
        .filter(|t| t["op"] != "num")
        .filter(|t| seen.insert(t.to_string()))
        .collect();
    let subs: Vec<Exp> = trees.iter().map(|t| json_to_exp(t)).collect();
    let steps: Vec<Option<usize>> = match case.get("maxsteps").and_then(|v| v.as_array()) {
        Some(a) => a.iter().map(|v| v.as_u64().map(|x| x as usize)).collect(),
        None => vec![None, Some(1), Some(2), Some(5)],
    };
    for ms in steps {
        let mut ev = src.clone();
        ev["id"] = json!(format!("{}@{}", id, ms.map(|m| m.to_string()).unwrap_or("d".into())));
        ev["srctext"] = json!(model.to_string());
        ev["maxsteps"] = json!(ms.map(|m| m as i64).unwrap_or(-1));
        let res = catch_unwind(AssertUnwindSafe(|| {
            bounds_verif_hooks::analyze(model.domain(), model.constraints(), ms, &subs)
        }));
        match res {
            Err(_) => {
                ev["out"] = json!("panic");
            }
            Ok(rep) => {
                ev["out"] = json!("ok");
                ev["limit"] = json!(rep.reached_iteration_limit);
                ev["infeasible"] = json!(rep.detected_infeasible);
                ev["box"] = rep
                    .variables
                    .iter()
                    .map(|(n, lo, hi)| {
                        json!({"name":n,"lo":grid_inward(*lo,true),"hi":grid_inward(*hi,false),
                               "ilo":round_inward(*lo,true),"ihi":round_inward(*hi,false)})
                    })
                    .collect();
                let mut sj = vec![];
                for ((t, e), (lo, hi)) in trees.iter().zip(subs.iter()).zip(rep.expressions.iter()) {
                    sj.push(json!({"e":t,"lo":round_bound(*lo,true),"hi":round_bound(*hi,false),"text":e.to_string()}));
                }
                ev["subs"] = json!(sj);
                // published ranges: exact on the grid (see grid_inward), whatever their digits
                let mut pubdom = vec![];
                for (n, dv) in rep.domain.iter() {
                    let (k, lo, hi) = match dv.get_type() {
                        rooc::VariableType::Boolean => ("bool", 0.0, 1.0),
                        rooc::VariableType::IntegerRange(a, b) => ("int", *a as f64, *b as f64),
                        rooc::VariableType::Real(a, b) => ("real", *a, *b),
                        rooc::VariableType::NonNegativeReal(a, b) => ("nnreal", a.max(0.0), *b),
                    };
                    pubdom.push(json!({"name":n,"kind":k,"lo":grid_inward(lo,true),"hi":grid_inward(hi,false)}));
                }
                ev["pubdom"] = json!(pubdom);
            }
        }
        out.push(ev);
    }
}
