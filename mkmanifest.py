#!/usr/bin/env python3
"""Regenerates MANIFEST.json from the table below (single source of truth)."""
import json

CLAIMED = {
    "C01": dict(level="model_checking", ref="4/C01", technique="TLA+ trace validation (LinTrace: exact projection by Boolean enumeration + Fourier-Motzkin) of real Linearizer outputs on TLC-enumerated model families",
                text="TLC enumerates finite model families (ModelGen A-D) completely and validates, per model, the real Linearizer output against the projection relation stated in LinTrace.tla over a sample grid of the declared variables; auxiliaries are decided exactly.",
                note="declared continuous variables are sampled on a grid; TLC, Json module and serde marshalling are trusted"),
    "C02": dict(level="model_checking", ref="4/C02", technique="TLA+ trace validation (LinTrace: exact optimisation over auxiliaries by enumeration + Fourier-Motzkin) on TLC-enumerated model families",
                text="Same corpus as C01; for every source-feasible sample the exact optimum of the linear objective over all auxiliary extensions must equal the source objective evaluated by the specification's Eval.",
                note="same trusted base as C01; family J puts the three-operand min / max blocks of family I into the objective"),
    "C07": dict(level="model_checking", ref="4/C07", technique="TLA+ trace validation of the real bounds analyzer (hook H1, BoundsTrace) and of published ranges of compiled models (LinTrace) on TLC-generated row sequences",
                text="TLC generates ordered row sequences (BoundsGen) x step limits; the real analyzer's box, published domain and sub-expression intervals are validated against the specification's exact evaluation on a sample grid; published ranges of compiled models are validated on corpus K.",
                note="variable boxes and published ranges are moved inward onto the 1/1024 grid exactly (membership of a grid sample is decided without tolerance); sub-expression intervals are rounded outward; continuous variables sampled on a grid; hook H1 trusted to call the same functions as the linearizer"),
    "C08": dict(level="model_checking", ref="4/C08", technique="TLA+ trace validation (LinTrace!IllFormed / BadErr) of real Linearizer outputs and errors on TLC-enumerated model families incl. naming corner cases",
                text="Structural predicate over every compile outcome of corpus K plus family E (duplicate names, $-named user variables, infinite constants, empty aggregations, unbounded operands); guessed constants are excluded semantically by C01 far-point samples.",
                note="name order is passed as byte-order ranks computed by the harness; finiteness is read from f64::is_finite by the harness; the names of compiled rows are judged by NameTrace.tla on every program of NameGen.tla (constraints compiling to none / one / two rows under colliding names; rows are mapped to constraints by position); a model with $-named user variables is also compiled with them renamed (same number of variables)"),
    "C13": dict(level="model_checking", ref="4/C13", technique="TLC model checking of the design machine StdForm.tla (one action per pass of to_standard_form, every small model) + TLA+ trace validation (StdFormTrace) of real into_standard_form outputs (hook H2) on TLC-enumerated LPs, both judged by StdCorr.tla: exact equality of the feasible polyhedra and objectives (Fourier-Motzkin) and two-way point correspondence on a grid",
                text="TLC enumerates small continuous LPs (LpGen); for each, the real standard form is validated: shape, and for every grid assignment of the image columns feasibility in the standard form is equivalent to feasibility of the mapped-back original point with equal objective after flip and offset.",
                note="exact for numbers that fit 32-bit integer arithmetic (otherwise counted unverifiable); hook H2 accessors trusted"),
    "C14": dict(level="model_checking", ref="4/C14", technique="TLC model checking of Simplex.tla (all admissible pivots; Bland termination) + step-by-step TLA+ trace validation of the real Tableau (hook H3) against it",
                text="Simplex.tla states the pivot rule nondeterministically and TLC checks its invariants (unit basis, feasibility, equivalence with the initial system, objective bookkeeping, optimality at Finish, monotonicity) for all 2x4 starts; every recorded pivot of the real Tableau must be a step of that machine and its float tableau must match the exact successor.",
                note="integer start data; float comparison at 3e-4; termination claimed for solve/solve_step_by_step"),
    "C04": dict(level="model_checking", ref="4/C04", technique="TLA+ trace validation (SolveTrace!PointProblems) of every solver entry point's returned point on TLC-enumerated LP/MILP models",
                text="TLC enumerates small LP/MILP models (LpGen families, simulation for 3-variable models); each of the five entry points is run on each; returned points are checked exactly (snapped rationals) for completeness, rows, bounds, integrality, objective value and named-row activities.",
                note="float answers are snapped to rationals with denominator <= 500 within 1e-6 or compared at 1e-3"),
    "C05": dict(level="model_checking", ref="4/C05", technique="TLA+ trace validation (SolveTrace!Verdict: integer enumeration + Fourier-Motzkin optimisation as exact oracle) of every solver entry point's verdict on TLC-enumerated LP/MILP models",
                text="Same events as C04; the verdict (optimum value / infeasible / unbounded, through the dedicated error kinds) must equal the specification's exact verdict; simplex-based entry points must reach a verdict (a watchdog timeout is a violation).",
                note="optimal values compared at 1e-6 relative after snapping; integer ranges are the small declared ones; the hand-written corpus has degenerate equality systems, rows scaled by 2^-17, contradictions of 2^-18, a bound of 1e7, variables named like the columns of the standard form; two Clarabel models are open known findings (identified by the model)"),
    "C17": dict(level="model_checking", ref="4/C17", technique="TLA+ token-driven reader machine (LpReader.tla) as trace specification of to_lp_format on TLC-generated linear models",
                text="LpReader.tla is an independent CPLEX-LP reader written as a state machine that consumes one token per step; for every exported text TLC runs it over the real token stream and compares the model read (sense, objective and constant, rows, relations, right-hand sides, names, bounds, binary/general sets) with the model exported.",
                note="white-space tokenisation and float parsing of numeric tokens happen in the harness; numbers are compared by sign and bit pattern; variables called like words of the LP format are an open known finding (KNOWN-KEYWORD-NAME)"),
    "C20": dict(level="model_checking", ref="4/C20", technique="TLA+ trace validation (SolveTrace!DualProblems: exact re-solving of right-hand-side perturbations by Fourier-Motzkin) of Clarabel's reported shadow prices on TLC-generated named-row LPs",
                text="For every named row whose exact optimum is differentiable in its right-hand side (equal secant slopes over +-1/8, decided by the FM oracle) the reported dual must equal that slope in the user's objective sense; duals only for named rows, exactly one each.",
                note="duals snapped to small rationals within 1e-6; rows with non-unique sensitivities are outside the property and not judged; both doors are exercised (LinearModel, and source text through front end and linearizer); two classes of the text door are known findings"),
    "C15": dict(level="exploration", ref="4/C15", technique="TLA+ trace validation (SolveTrace!LimitsProblems: allowed returns of Call(model, gap, limit), exact optimum by enumeration) of solve_milp_lp_problem_with / builder Microlp under sampled time limits and gaps",
                text="The set of allowed returns of a call with a gap and a time limit is stated in TLA+ (internal search steps and the timer are existentially quantified); every observed return of the real solver on TLC-generated knapsack and small MILP models must be allowed. Wall-clock firing points are sampled (limits from 0 to 5 ms), not enumerated.",
                note="timing-dependent paths are sampled; the exact optimum comes from 2^n enumeration inside TLC"),
    "C09": dict(level="model_checking", ref="4/C09", technique="TLA+ reference precedence-climbing parser (Pratt.tla) as trace specification of the real parser on TLC-enumerated token strings (TokGen.tla)",
                text="TLC enumerates all well-formed token strings up to 5 tokens and all operator triples with prefix choices (plus simulated strings up to 12 tokens); the real front end parses each rendered text (keyword, symbolic-alias and keyword-prefixed-identifier spellings) and the compiled tree must have the value Pratt!Parse gives at every assignment over {0,1,2,3,5,7}.",
                note="value equality on a finite assignment grid; rendering of tokens to text is done by the driver"),
    "C10": dict(level="model_checking", ref="4/C10", technique="TLA+ trace validation of Exp::simplify/flatten on TLC-enumerated trees (RewriteTrace: value equality on all small assignments, idempotence, kept denominators) and of respelled twin models through the text front end (LinTrace predicates + equal acceptance)",
                text="All trees of depth <= 1 and the depth-2 family of ExprGen.tla are rewritten by the real code and compared by value with the specification's Eval at every small assignment; twins of corpus-K models in other constant spellings must be accepted together and both satisfy the projection/objective predicates against the first spelling's source model.",
                note="a variable that is a direct logic operand is sampled over {0, 1} (the compiler refuses it unless declared Boolean); twin texts are rendered by the driver; part 3: models around trees that hide a zero or variable denominator (families zero and prune) must be refused by Linearizer::linearize (LinTrace!CheckDiv)"),
    "C11": dict(level="model_checking", ref="4/C11", technique="TLA+ trace validation (FormatTrace: idempotence, equal compiled models, value of the formatted expression vs Pratt!Parse of the original tokens) of RoocParser::format on TLC-enumerated expression strings and a program corpus",
                text="Every expression string TokGen enumerates up to 5 tokens (all parenthesised and implicit-product shapes) plus operator triples and simulated longer strings, and hand-written programs covering blocks, iterations, graphs, indexed/escaped names and all declaration forms, are formatted by the real formatter, formatted again, and compiled before and after; FormatTrace.tla decides parse-ability, idempotence and model equality.",
                note="constant declarations of every literal kind, name forms and uses come from ConstGen.tla; larger programs are a fixed hand-written corpus (17 programs); model equality is record equality of the serialised Model"),
    "C12": dict(level="exploration", ref="4/C12", technique="TLA+ trace validation (RenderTrace: exact comparison of the recompiled linear model by sign and bit pattern, fixed point of the rendering) of Model::to_string / LinearModel::to_string through the whole real front end",
                text="Models of the corpus-K families (rendered to source first, a third again with magnitudes 1e-9..1e9) and the program corpus are compiled; both renderings are fed back through parser, type checker, transformer and linearizer; RenderTrace.tla compares variables, domains, objective, offset, sense and the multiset of rows exactly and the second rendering with the first. Three degenerate shapes that cannot survive a text round trip literally are classified by the specification and listed as known findings.",
                note="sampled families, not exhaustive; the corpus includes names built from computed and string indices, row names, named constants under unary minus, coefficients beyond the i64 range; differences explained by the KNOWN-SHAPE and KNOWN-NAME classes are reported as known findings, any other difference is a violation"),
    "C03": dict(level="exploration", ref="4/C03", technique="TLA+ trace validation (E2ETrace: reference interpreter Sem!Eval with complete enumeration of the declared domains) of RoocSolver + auto_solver on programs rendered from TLC-generated abstract models",
                text="Abstract models from the generator machine (family G exhaustive, H simulated) over integer and Boolean domains are rendered to source text with minimal parentheses in two spellings and solved through the one-shot entry point; E2ETrace.tla decides satisfiability, feasibility of the returned values, the reported objective and optimality by enumerating every assignment of the declared domains.",
                note="integer and Boolean domains are enumerated completely (the linearization families are re-declared over integer ranges); family R re-declares the integer variables as bounded Reals and is judged by necessary conditions only (exact at the returned point, the grid of halves for optimality and infeasibility); the renderer is part of the driver"),
    "C18": dict(level="exploration", ref="4/C18", technique="TLA+ stage machine (Pipeline.tla) as trace specification of all public stages run in child processes under a watchdog, on valid programs, TLA+-generated mutation histories (Mutate.tla), a nesting ladder and byte noise",
                text="Pipeline.tla states the compiler as a machine whose every stage has exactly the outcomes ok and err, with stage dependencies; each input is run through parse, format, type_check, transform, linearize, standardize and solve in a child process (panics, aborts and hangs are observed) and the recorded stage outcomes must be a behaviour of that machine within the time limit.",
                note="hangs are observable only as the watchdog limit (12 s per stage); memory safety is out of scope; inputs are sampled; widths stay where the dense standard form is a few million entries; the ladders include nests of min / max blocks and of non-range iterators to depth 64, products of sums, the operator matrix at the integer limits, flat chains on a 2 MiB thread, and the builder's sum() over 5000 variables (the child builds that model itself)"),
    "C06": dict(level="model_checking", ref="4/C06", technique="TLA+ reference semantics of iteration/aggregation constructs (Expand.tla: Envs, Unroll) generating program + unrolled twin; TLA+ trace validation (ExpandTrace) of row-for-row equality of the two real compilations",
                text="Expand.tla defines the meaning of binders (ranges, inclusive ranges, len, arrays, enumerate, nested arrays, graph nodes and edges with weights, dependent bounds), indexed names, coefficients from data and sum/min/max/avg blocks, and prints for every program of its families the text with constructs and the text it unrolls; both are compiled by the real front end and linearizer and must be equal row for row.",
                note="data is fixed in the specification; the families (one, enum, graph, prod, logic, sets, alias - the second names of the built-ins -, compose - iterable functions applied to each other's results -, mixed, scope) are enumerated completely, three-row mixes are simulated; Models are also compared before linearization on sample assignments; the scoping rule (no re-binding of an enclosing name) is part of the specification"),
    "C19": dict(level="model_checking", ref="4/C19", technique="TLA+ trace validation (TypeTrace: classification of transform failures into type-class and data-dependent from the error's own structure) of type_check followed by transform on the complete (position x filler) family of TypeGen.tla",
                text="TypeGen.tla enumerates every pair of a program position (operand, index, bound, iteration source, function argument, array index, aggregation body, destructuring pattern, declaration bound, logic operand, let body) and a filler of a chosen type; the real type checker and transformer run on each; TypeTrace.tla accepts an event iff acceptance implies that transform succeeds or fails with a data-dependent error.",
                note="soundness only; five classes of genuine type-checker holes are listed as known findings"),
    "C16": dict(level="model_checking", ref="4/C16", technique="TLC-enumerated call plans of the builder state machine (Builder.tla) executed against the real ModelBuilder, TLA+ trace validation (DoorsTrace + Judge) of the answers of seven front doors against the abstract model, a TLC-checked typed pipe machine (Pipes.tla) whose every run is replayed through PipeRunner, and declaration doors (Decls.tla)",
                text="Builder.tla states the fluent builder as a machine (with / with_all / objective calls; last objective wins) and TLC enumerates every call plan up to four calls; each sampled abstract model is built through a plan with the real builder (methods and operators) and also compiled from text, from text with API-supplied constants, through the pipe runner and through the one-shot solver. DoorsTrace.tla judges every door's answer by complete enumeration of the domains, compares rows when trees are identical and checks handle / name / eval read-backs.",
                note="integer and Boolean domains; the builder is driven both with Expr operands and natively (most specific overloads, sum, list helpers, constraint!); vars!, add_var/add_vars and define are compared by Decls.tla; every pipe sequence up to 8 by Pipes.tla; every chain of up to three -> / <-> through constraint!, expr! and the text by Chains.tla against Pratt.tla; programs the static typing refuses are judged by the weaker rule IllTyped (a door that answers answers right); door M is the builder through the MicroLP solver object"),
}
NOT_YET = {}
ALL = [f"C{i:02d}" for i in range(1, 21)]

checks = []
for pid in ALL:
    if pid not in CLAIMED:
        continue
    c = CLAIMED[pid]
    checks.append({
        "property_id": pid,
        "quick_cmd": f"./check {pid} --tier quick",
        "thorough_cmd": f"./check {pid} --tier thorough",
        "evidence_file": f"/verif/evidence/{pid}.json",
        "replay_cmd_template": f"./check {pid} --replay {{path}}",
        "engine": "tlc-trace",
        "level_claimed": {"category": c["level"], "text": c["text"], "design_ref": c["ref"]},
        "level_note": c["note"],
        "technique": c["technique"],
    })
na = [{"property_id": p, "reason": NOT_YET.get(p, "check not built yet in this round; planned in DESIGN.md section 4 (model-based, TLA+ trace validation)")}
      for p in ALL if p not in CLAIMED]
m = {
    "version": 1,
    "setup_cmd": "cd /verif/harness && cp -n /repo/packages/rooc/Cargo.lock Cargo.lock; CARGO_NET_OFFLINE=true cargo build --offline",
    "hooks": {
        "guard": "--cfg rooc_verif",
        "enable": "harness/.cargo/config.toml sets rustflags --cfg rooc_verif for the harness build (path dependency on /repo/packages/rooc)",
        "baseline_off_cmd": "cd /repo/packages/rooc && cargo test --workspace --no-fail-fast --offline",
        "source_commits": ["fa39267", "3fa75bf"],
        "add_only": True,
    },
    "engines": [
        {"name": "tlc-trace", "path": "/verif/check", "serves_properties": [c["property_id"] for c in checks],
         "kind_free_text": "TLC generator machines (GEN) -> Rust harness on the real crate (RUN) -> TLC trace specifications (VAL); see DESIGN.md 2.2"},
    ],
    "checks": checks,
    "not_applicable": na,
    "notes": "All verdicts are REJECT lines printed by TLA+ trace specifications under /verif/spec; the Python driver and Rust harness only marshal data.",
}
json.dump(m, open("/verif/MANIFEST.json", "w"), indent=1)
print("claimed", len(checks), "not_applicable", len(na))
