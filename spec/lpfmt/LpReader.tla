------------------------------- MODULE LpReader -------------------------------
(* An independent, token-driven reader of CPLEX-LP text used as the trace     *)
(* specification of  LinearModel --to_lp_format--> text  (property C17).      *)
(* One event = one exported model: the white-space separated tokens of the    *)
(* text (numeric tokens already parsed by the standard float parser and       *)
(* passed as sign + bit pattern of the magnitude: the reader only compares    *)
(* and negates numbers) and the model they were exported from.                *)
(* The machine consumes ONE TOKEN PER STEP:                                   *)
(*   sense line -> objective (label, terms, constant) -> Subject To -> rows   *)
(*   (label: terms relation rhs) -> Bounds (lo <= x <= hi | x <= hi |         *)
(*   x >= lo | lo <= x | x free) -> Binary -> General -> End                  *)
(* Omitted coefficients are 1, signs are separate tokens, variables not       *)
(* mentioned in Bounds have the LP default range [0, +infinity).              *)
(* At End the model that was read is compared with the model exported.        *)
EXTENDS Integers, Sequences, FiniteSets, TLC, Json, IOUtils

Rec == ndJsonDeserialize(IOEnv.TRACE)
Start == atoi(IOEnv.START)

One == <<261888, 0, 0>>           \* bit pattern of 1.0
InfM == <<524032, 0, 0>>          \* bit pattern of +infinity
Zero == [s |-> 0, m |-> <<0, 0, 0>>]
PlusInf == [s |-> 1, m |-> InfM]
MinusInf == [s |-> -1, m |-> InfM]
NumEq(x, y) == (x.s = 0 /\ y.s = 0) \/ (x.s = y.s /\ x.m = y.m)
Signed(sg, x) == [s |-> sg * x.s, m |-> x.m]

VARIABLES l, pos, sec, sense, obj, objc, rows, cur, bnd, frees, bins, gens, bq, bad, pbs
vars == <<l, pos, sec, sense, obj, objc, rows, cur, bnd, frees, bins, gens, bq, bad, pbs>>

Ev == Rec[l]
Toks == Ev.tokens
Tok == Toks[pos]
HasNext == pos < Len(Toks)
NextTok == Toks[pos + 1]

NoCur == [active |-> FALSE]
NewCur(nm) == [active |-> TRUE, name |-> nm, terms |-> <<>>, const |-> Zero, nconst |-> 0,
               sign |-> 1, coef |-> Zero, hascoef |-> FALSE, cmp |-> "", rhs |-> Zero, hasrhs |-> FALSE]
Relations == {"<=", ">=", "=", "=<", "=>"}
RelOf(s) == CASE s \in {"<=", "=<"} -> "le" [] s \in {">=", "=>"} -> "ge" [] s = "=" -> "eq" [] OTHER -> "?"
SectionWords == {"Minimize", "Maximize", "Minimise", "Maximise", "Subject", "To", "Bounds", "Binary", "Binaries",
                 "General", "Generals", "End", "st", "ST", "s.t."}

\* a pending coefficient that was not followed by a variable is a constant term
\* (a zero constant denotes nothing and is dropped; one non-zero constant is kept)
Flush(c) == IF c.active /\ c.hascoef /\ c.cmp = ""
            THEN IF c.coef.s = 0 THEN [c EXCEPT !.hascoef = FALSE, !.sign = 1]
                 ELSE [c EXCEPT !.const = Signed(c.sign, c.coef), !.nconst = c.nconst + 1, !.hascoef = FALSE, !.sign = 1]
            ELSE c
\* close the expression under construction and file it as objective or row
CloseCur ==
   LET c == Flush(cur) IN
   IF ~c.active THEN obj' = obj /\ objc' = objc /\ rows' = rows
   ELSE IF sec = "obj" THEN obj' = c.terms /\ objc' = c.const /\ rows' = rows
   ELSE obj' = obj /\ objc' = objc /\ rows' = Append(rows, c)
CurBad == LET c == Flush(cur) IN
          c.active /\ (c.nconst > 1 \/ (sec = "st" /\ (c.cmp = "" \/ ~c.hasrhs)) \/ (sec = "obj" /\ c.cmp # ""))

TermOf(terms, nm) == {i \in 1..Len(terms) : terms[i].name = nm}

Keep(v) == UNCHANGED v
Advance == pos' = pos + 1 /\ l' = l /\ pbs' = pbs

\* --- one action per token class ------------------------------------------------
SenseTok ==
   /\ Tok.s \in {"Minimize", "Minimise", "Maximize", "Maximise"} /\ ~Tok.label /\ sec = "start"
   /\ sense' = (IF Tok.s \in {"Minimize", "Minimise"} THEN "min" ELSE "max")
   /\ sec' = "obj" /\ cur' = NewCur("") /\ Advance
   /\ UNCHANGED <<obj, objc, rows, bnd, frees, bins, gens, bq, bad>>
SubjectTo ==
   /\ Tok.s \in {"Subject", "st", "ST", "s.t."} /\ ~Tok.label /\ sec = "obj"
   /\ CloseCur /\ bad' = (bad \/ CurBad) /\ cur' = NoCur /\ sec' = "st" /\ Advance
   /\ UNCHANGED <<sense, bnd, frees, bins, gens, bq>>
ToWord == Tok.s = "To" /\ sec = "st" /\ ~cur.active /\ Advance
          /\ UNCHANGED <<sec, sense, obj, objc, rows, cur, bnd, frees, bins, gens, bq, bad>>
Label ==
   /\ Tok.label /\ sec \in {"obj", "st"}
   /\ IF sec = "obj" THEN (cur' = [cur EXCEPT !.name = Tok.s] /\ obj' = obj /\ objc' = objc /\ rows' = rows /\ bad' = (bad \/ cur.terms # <<>>))
      ELSE (CloseCur /\ bad' = (bad \/ CurBad) /\ cur' = NewCur(Tok.s))
   /\ Advance /\ UNCHANGED <<sec, sense, bnd, frees, bins, gens, bq>>
SignTok ==
   /\ Tok.s \in {"+", "-"} /\ ~Tok.num /\ sec \in {"obj", "st"} /\ cur.active
   /\ cur' = (IF cur.cmp = "" THEN [Flush(cur) EXCEPT !.sign = (IF Tok.s = "-" THEN -1 ELSE 1) * Flush(cur).sign]
              ELSE [cur EXCEPT !.sign = (IF Tok.s = "-" THEN -1 ELSE 1) * cur.sign])
   /\ Advance /\ UNCHANGED <<sec, sense, obj, objc, rows, bnd, frees, bins, gens, bq, bad>>
NumTok ==
   /\ Tok.num /\ sec \in {"obj", "st"}
   /\ IF ~cur.active THEN (cur' = NewCur("") /\ bad' = TRUE)      \* number outside any expression
      ELSE IF cur.cmp # "" THEN (cur' = [cur EXCEPT !.rhs = Signed(cur.sign, Tok.v), !.hasrhs = TRUE, !.sign = 1] /\ bad' = (bad \/ cur.hasrhs))
      ELSE (cur' = [Flush(cur) EXCEPT !.coef = Tok.v, !.hascoef = TRUE] /\ bad' = bad)
   /\ Advance /\ UNCHANGED <<sec, sense, obj, objc, rows, bnd, frees, bins, gens, bq>>
RelTok ==
   /\ Tok.s \in Relations /\ sec = "st" /\ cur.active
   /\ cur' = [Flush(cur) EXCEPT !.cmp = RelOf(Tok.s), !.sign = 1]
   /\ bad' = (bad \/ cur.cmp # "") /\ Advance
   /\ UNCHANGED <<sec, sense, obj, objc, rows, bnd, frees, bins, gens, bq>>
VarTok ==
   /\ ~Tok.num /\ ~Tok.label /\ Tok.s \notin SectionWords \cup Relations \cup {"+", "-"} /\ sec \in {"obj", "st"}
   /\ LET c == IF cur.active THEN cur ELSE NewCur("")           \* a row may be unlabelled
          k == IF c.hascoef THEN Signed(c.sign, c.coef) ELSE [s |-> c.sign, m |-> One]
      IN  /\ cur' = [c EXCEPT !.terms = Append(c.terms, [name |-> Tok.s, c |-> k]), !.sign = 1, !.hascoef = FALSE]
          /\ bad' = (bad \/ TermOf(c.terms, Tok.s) # {} \/ c.cmp # "")
   /\ Advance /\ UNCHANGED <<sec, sense, obj, objc, rows, bnd, frees, bins, gens, bq>>
\* sections after the rows
EnterSection ==
   /\ Tok.s \in {"Bounds", "Binary", "Binaries", "General", "Generals"} /\ ~Tok.label /\ sec \in {"obj", "st", "bounds", "binary", "general"}
   /\ IF sec \in {"obj", "st"} THEN (CloseCur /\ bad' = (bad \/ CurBad \/ bq # <<>>)) ELSE (obj' = obj /\ objc' = objc /\ rows' = rows /\ bad' = (bad \/ bq # <<>>))
   /\ cur' = NoCur
   /\ sec' = (CASE Tok.s = "Bounds" -> "bounds" [] Tok.s \in {"Binary", "Binaries"} -> "binary" [] OTHER -> "general")
   /\ Advance /\ UNCHANGED <<sense, bnd, frees, bins, gens, bq>>
\* Bounds: tokens are buffered until the statement is complete
BoundDone(q) ==
   \/ Len(q) = 2 /\ ~q[1].num /\ q[2].s \in {"free", "Free", "FREE"}
   \/ Len(q) = 3 /\ ~q[1].num /\ q[2].s \in Relations /\ q[3].num
   \/ Len(q) = 5
   \/ Len(q) = 3 /\ q[1].num /\ q[2].s \in Relations /\ ~q[3].num /\ ~(HasNext /\ NextTok.s \in Relations)
SetLo(b, nm, v) == [b EXCEPT !.lo = Append(b.lo, [name |-> nm, v |-> v])]
SetHi(b, nm, v) == [b EXCEPT !.hi = Append(b.hi, [name |-> nm, v |-> v])]
ApplyBound(q) ==
   CASE Len(q) = 2 -> frees' = frees \cup {q[1].s} /\ bnd' = bnd
     [] Len(q) = 3 /\ ~q[1].num -> frees' = frees /\
          bnd' = (IF RelOf(q[2].s) = "le" THEN SetHi(bnd, q[1].s, q[3].v)
                  ELSE IF RelOf(q[2].s) = "ge" THEN SetLo(bnd, q[1].s, q[3].v)
                  ELSE SetHi(SetLo(bnd, q[1].s, q[3].v), q[1].s, q[3].v))
     [] Len(q) = 3 /\ q[1].num -> frees' = frees /\
          bnd' = (IF RelOf(q[2].s) = "le" THEN SetLo(bnd, q[3].s, q[1].v) ELSE SetHi(bnd, q[3].s, q[1].v))
     [] Len(q) = 5 -> frees' = frees /\
          bnd' = (IF RelOf(q[2].s) = "le" THEN SetHi(SetLo(bnd, q[3].s, q[1].v), q[3].s, q[5].v)
                  ELSE SetLo(SetHi(bnd, q[3].s, q[1].v), q[3].s, q[5].v))
BoundShapeOk(q) == \/ Len(q) = 2 \/ (Len(q) = 3)
                   \/ (Len(q) = 5 /\ q[1].num /\ q[2].s \in Relations /\ ~q[3].num /\ q[4].s = q[2].s /\ q[5].num /\ RelOf(q[2].s) # "eq")
BoundTok ==
   /\ sec = "bounds" /\ Tok.s \notin {"Bounds", "Binary", "Binaries", "General", "Generals", "End"}
   /\ LET q == Append(bq, Tok) IN
      IF BoundDone(q) THEN ApplyBound(q) /\ bq' = <<>> /\ bad' = (bad \/ ~BoundShapeOk(q))
      ELSE bq' = q /\ bnd' = bnd /\ frees' = frees /\ bad' = (bad \/ Len(q) > 5)
   /\ Advance /\ UNCHANGED <<sec, sense, obj, objc, rows, cur, bins, gens>>
ListTok ==
   /\ sec \in {"binary", "general"} /\ Tok.s \notin {"Bounds", "Binary", "Binaries", "General", "Generals", "End"}
   /\ IF sec = "binary" THEN bins' = bins \cup {Tok.s} /\ gens' = gens ELSE gens' = gens \cup {Tok.s} /\ bins' = bins
   /\ bad' = (bad \/ Tok.num) /\ Advance
   /\ UNCHANGED <<sec, sense, obj, objc, rows, cur, bnd, frees, bq>>

---------------------------------------------------------------------------
(* comparison of what was read with what was exported *)
NVars == Len(Ev.vars)
VName(i) == Ev.vars[i].name
CoefIn(terms, nm) == LET S == TermOf(terms, nm) IN IF S = {} THEN Zero ELSE terms[CHOOSE i \in S : TRUE].c
LastOf(seq, nm, dflt) == LET S == {i \in 1..Len(seq) : seq[i].name = nm} IN
                         IF S = {} THEN dflt ELSE seq[CHOOSE i \in S : \A j \in S : j <= i].v
ReadLo(nm) == IF nm \in bins THEN Zero ELSE IF nm \in frees THEN LastOf(bnd.lo, nm, MinusInf) ELSE LastOf(bnd.lo, nm, Zero)
ReadHi(nm) == IF nm \in bins THEN [s |-> 1, m |-> One] ELSE LastOf(bnd.hi, nm, PlusInf)
Known(terms) == \A i \in 1..Len(terms) : \E j \in 1..NVars : VName(j) = terms[i].name
Problems(finalRows, finalObj, finalObjc) ==
   LET If(c, w) == IF c THEN {w} ELSE {} IN
   If(bad, "malformed LP text")
   \cup If(sense # (IF Ev.sense = "max" THEN "max" ELSE "min"), "optimisation sense differs")
   \cup If(\E i \in 1..NVars : ~NumEq(CoefIn(finalObj, VName(i)), Ev.obj[i]), "objective coefficient differs")
   \cup If(~Known(finalObj), "objective mentions an unknown variable")
   \cup If(~NumEq(finalObjc, Ev.off), "objective constant differs")
   \cup If(Len(finalRows) # Len(Ev.rows), "number of rows differs")
   \cup If(Len(finalRows) = Len(Ev.rows) /\ \E k \in 1..Len(Ev.rows) :
             \/ \E i \in 1..NVars : ~NumEq(CoefIn(finalRows[k].terms, VName(i)), Ev.rows[k].a[i])
             \/ ~Known(finalRows[k].terms) \/ finalRows[k].nconst > 0, "row coefficients differ")
   \cup If(Len(finalRows) = Len(Ev.rows) /\ \E k \in 1..Len(Ev.rows) : finalRows[k].cmp # Ev.rows[k].cmp, "row relation differs")
   \cup If(Len(finalRows) = Len(Ev.rows) /\ \E k \in 1..Len(Ev.rows) : ~NumEq(finalRows[k].rhs, Ev.rows[k].b), "right-hand side differs")
   \cup If(Len(finalRows) = Len(Ev.rows) /\ \E k \in 1..Len(Ev.rows) : Ev.rows[k].name # "" /\ finalRows[k].name # Ev.rows[k].name, "user row name not preserved")
   \cup If(Len(finalRows) = Len(Ev.rows) /\ \E j, k \in 1..Len(finalRows) : j < k /\ finalRows[j].name = finalRows[k].name
               /\ (Ev.rows[j].name = "" \/ Ev.rows[k].name = ""), "generated row name not unique")
   \cup If(Len(finalRows) = Len(Ev.rows) /\ \E k \in 1..Len(finalRows) : finalRows[k].name = "", "row without a name")
   \cup If(\E i \in 1..NVars : ~NumEq(ReadLo(VName(i)), Ev.vars[i].lo) \/ ~NumEq(ReadHi(VName(i)), Ev.vars[i].hi), "variable bounds differ")
   \cup If(\E i \in 1..NVars : (VName(i) \in bins) # (Ev.vars[i].kind = "bool"), "binary marking differs")
   \cup If(\E i \in 1..NVars : (VName(i) \in gens) # (Ev.vars[i].kind = "int"), "general-integer marking differs")
   \cup If(\E nm \in bins \cup gens \cup frees : \A i \in 1..NVars : VName(i) # nm, "marking of an unknown variable")

EndTok ==
   /\ Tok.s = "End" /\ ~Tok.label /\ sec \in {"obj", "st", "bounds", "binary", "general"}
   /\ LET c == Flush(cur)
          fr == IF sec = "st" /\ c.active THEN Append(rows, c) ELSE rows
          fo == IF sec = "obj" /\ c.active THEN c.terms ELSE obj
          fc == IF sec = "obj" /\ c.active THEN c.const ELSE objc
          pb == Problems(fr, fo, fc) \cup (IF (sec \in {"obj", "st"} /\ CurBad) \/ bq # <<>> \/ HasNext THEN {"malformed LP text"} ELSE {})
      IN  pbs' = [set |-> pb, nrows |-> Len(fr)]
   /\ sec' = "end" /\ pos' = pos /\ l' = l
   /\ UNCHANGED <<sense, obj, objc, rows, cur, bnd, frees, bins, gens, bq, bad>>

Fresh == /\ pos' = 1 /\ sec' = "start" /\ sense' = "" /\ obj' = <<>> /\ objc' = Zero /\ rows' = <<>> /\ cur' = NoCur
         /\ bnd' = [lo |-> <<>>, hi |-> <<>>] /\ frees' = {} /\ bins' = {} /\ gens' = {} /\ bq' = <<>> /\ bad' = FALSE
         /\ pbs' = [set |-> {}, nrows |-> 0]
\* a model variable called like a word of the LP format (the names are copied verbatim into the text): the
\* reader takes it for the keyword.  Such an event is reported under its own reason (a known finding).
LPWords == {"st", "ST", "St", "end", "End", "END", "bin", "Bin", "BIN", "binary", "Binary", "binaries", "Binaries", "gen", "Gen", "general", "General",
            "generals", "Generals", "free", "Free", "FREE", "inf", "Inf", "infinity", "Infinity", "bounds", "Bounds", "bound", "Bound", "subject", "Subject",
            "to", "To", "such", "that", "min", "Min", "max", "Max", "minimize", "Minimize", "maximize", "Maximize", "minimum", "maximum"}
KeywordName == \E i \in 1..NVars : VName(i) \in LPWords
Why(w) == IF KeywordName THEN "KNOWN-KEYWORD-NAME a variable is called like a word of the LP format and is read as that word" ELSE w
NextEvent == /\ l <= Len(Rec)
             /\ IF sec = "end" THEN
                   (IF pbs.set = {} THEN PrintT(<<"STAT", Ev.id, Len(Toks), pbs.nrows>>)
                    ELSE PrintT(<<"REJECT", "C17", Ev.id, Why(CHOOSE p \in pbs.set : TRUE), ToJson(pbs.set)>>))
                ELSE IF Ev.out # "ok" THEN PrintT(<<"REJECT", "C17", Ev.id, "export failed: " \o Ev.out, "">>)
                ELSE PrintT(<<"REJECT", "C17", Ev.id, Why("text is not LP format (no End, or unexpected token)"),
                              IF pos <= Len(Toks) THEN Tok.s ELSE "">>)
             /\ (l = Len(Rec) => PrintT(<<"ACCEPTED", Len(Rec) - Start + 1>>))
             /\ l' = l + 1 /\ Fresh
ReadToken == l <= Len(Rec) /\ Ev.out = "ok" /\ sec # "end" /\ pos <= Len(Toks)
             /\ (SenseTok \/ SubjectTo \/ ToWord \/ Label \/ SignTok \/ NumTok \/ RelTok \/ VarTok
                 \/ EnterSection \/ BoundTok \/ ListTok \/ EndTok)
Init == /\ l = Start /\ pos = 1 /\ sec = "start" /\ sense = "" /\ obj = <<>> /\ objc = Zero /\ rows = <<>> /\ cur = NoCur
        /\ bnd = [lo |-> <<>>, hi |-> <<>>] /\ frees = {} /\ bins = {} /\ gens = {} /\ bq = <<>> /\ bad = FALSE
        /\ pbs = [set |-> {}, nrows |-> 0]
Next == ReadToken \/ (~ENABLED ReadToken /\ NextEvent)
Spec == Init /\ [][Next]_vars
=============================================================================
