------------------------------- MODULE StdForm -------------------------------
(* Design-level machine for  LinearModel --to_standard_form--> standard form  *)
(* (transformers/standardizer.rs + EqualityConstraint::new), one action per   *)
(* pass of the code, in the code's order:                                      *)
(*   Bounds     a row per finite bound of every variable (a NonNegativeReal's  *)
(*              lower bound only when it is not 0)                             *)
(*   Split      every Real variable x, in column order, gets two appended      *)
(*              columns $p|x, $m|x carrying +a and -a in EVERY row and in the  *)
(*              objective; afterwards the Real columns are removed             *)
(*   Normalize  rows in order: = stays, <= gets a slack +1, >= a surplus -1    *)
(*              in a fresh column; rows are padded to the final width          *)
(*   FlipObj    a maximisation negates the costs and records the flip          *)
(*   FlipRhs    a row with a negative right-hand side is negated               *)
(* TLC checks on every model of MODELS (MCStdForm) that the result has the     *)
(* shape the property names and is the same problem (StdCorr: both inclusions  *)
(* of the feasible sets and the objective, exactly, and on the grid), and      *)
(* phase invariants in between.  The same StdCorr operators judge the real     *)
(* output in StdFormTrace (hook H2), so the design and the code are held to    *)
(* one definition of "the same problem".                                       *)
EXTENDS StdCorr

CONSTANT MODELS          \* set of [vars, rows, obj, off, den, sense]
VARIABLES pc, src, names, free, rows, obj, flip
svars == <<pc, src, names, free, rows, obj, flip>>

Fin(v) == v.inf = 0
UnitRow(n, i, cmp, b) == [a |-> [k \in 1..n |-> IF k = i THEN 1 ELSE 0], cmp |-> cmp, b |-> b]
\* bounds are integers here (d = 1)
BoundRows(vs) ==
   LET n == Len(vs)
       one(i) == LET v == vs[i]
                     lo == IF Fin(v.lo) /\ ~(v.kind = "nnreal" /\ v.lo.n = 0) THEN <<UnitRow(n, i, "ge", v.lo.n)>> ELSE <<>>
                     hi == IF Fin(v.hi) THEN <<UnitRow(n, i, "le", v.hi.n)>> ELSE <<>>
                 IN  lo \o hi
       RECURSIVE all(_)
       all(i) == IF i > n THEN <<>> ELSE one(i) \o all(i + 1)
   IN  all(1)

Init == /\ src \in MODELS
        /\ pc = "bounds"
        /\ names = [i \in 1..Len(src.vars) |-> src.vars[i].name]
        /\ free = {i \in 1..Len(src.vars) : src.vars[i].kind = "real"}
        /\ rows = src.rows
        /\ obj = src.obj
        /\ flip = FALSE

Bounds == /\ pc = "bounds"
          /\ rows' = rows \o BoundRows(src.vars)
          /\ pc' = "split"
          /\ UNCHANGED <<src, names, free, obj, flip>>

\* the Real columns in increasing order
FreeSeq == SetToSortSeq(free, <)
\* append (+a_i, -a_i) per Real column i, then drop the Real columns
Keep(v) == LET n == Len(names) IN
           [k \in 1..(n - Cardinality(free) + 2 * Cardinality(free)) |->
              LET kept == SetToSortSeq((1..n) \ free, <) IN
              IF k <= Len(kept) THEN v[kept[k]]
              ELSE LET q == k - Len(kept)
                       i == FreeSeq[(q + 1) \div 2]
                   IN  IF q % 2 = 1 THEN v[i] ELSE -v[i]]
KeepNames == LET n == Len(names)
                 kept == SetToSortSeq((1..n) \ free, <)
             IN  [k \in 1..(Len(kept) + 2 * Cardinality(free)) |->
                    IF k <= Len(kept) THEN names[kept[k]]
                    ELSE LET q == k - Len(kept)
                             i == FreeSeq[(q + 1) \div 2]
                         IN  (IF q % 2 = 1 THEN "$p|" ELSE "$m|") \o names[i]]
Split == /\ pc = "split"
         /\ rows' = [r \in 1..Len(rows) |-> [rows[r] EXCEPT !.a = Keep(rows[r].a)]]
         /\ obj' = Keep(obj)
         /\ names' = KeepNames
         /\ free' = {}
         /\ pc' = "normalize"
         /\ UNCHANGED <<src, flip>>

\* the k-th row that is not an equality gets column Len(names) + k
NonEqBefore(r) == Cardinality({q \in 1..r : rows[q].cmp # "eq"})
Width == Len(names) + NonEqBefore(Len(rows))
SlackName(r) == IF rows[r].cmp = "le"
                THEN "$sl_" \o ToString(Cardinality({q \in 1..r : rows[q].cmp = "le"}))
                ELSE "$su_" \o ToString(Cardinality({q \in 1..r : rows[q].cmp = "ge"}))
Normalize ==
   /\ pc = "normalize"
   /\ rows' = [r \in 1..Len(rows) |->
                 [a |-> [k \in 1..Width |->
                           IF k <= Len(names) THEN rows[r].a[k]
                           ELSE IF rows[r].cmp # "eq" /\ k = Len(names) + NonEqBefore(r)
                                THEN (IF rows[r].cmp = "le" THEN 1 ELSE -1) ELSE 0],
                  cmp |-> "eq", b |-> rows[r].b]]
   /\ names' = names \o [k \in 1..NonEqBefore(Len(rows)) |->
                           SlackName(CHOOSE r \in 1..Len(rows) : rows[r].cmp # "eq" /\ NonEqBefore(r) = k)]
   /\ obj' = obj \o [k \in 1..NonEqBefore(Len(rows)) |-> 0]
   /\ pc' = "flipobj"
   /\ UNCHANGED <<src, free, flip>>

FlipObj == /\ pc = "flipobj"
           /\ flip' = (src.sense = "max")
           /\ obj' = IF src.sense = "max" THEN [k \in 1..Len(obj) |-> -obj[k]] ELSE obj
           /\ pc' = "fliprhs"
           /\ UNCHANGED <<src, names, free, rows>>

FlipRhs == /\ pc = "fliprhs"
           /\ rows' = [r \in 1..Len(rows) |->
                         IF rows[r].b < 0 THEN [a |-> [k \in 1..Len(rows[r].a) |-> -rows[r].a[k]], cmp |-> "eq", b |-> -rows[r].b]
                         ELSE rows[r]]
           /\ pc' = "done"
           /\ UNCHANGED <<src, names, free, obj, flip>>

Next == Bounds \/ Split \/ Normalize \/ FlipObj \/ FlipRhs
Spec == Init /\ [][Next]_svars

\* ---- what TLC checks ---------------------------------------------------------------
\* the pair (source, result) in the shape StdCorr judges
Pair == [vars |-> src.vars, rows |-> src.rows, obj |-> src.obj, off |-> src.off, den |-> src.den, sense |-> src.sense,
         std |-> [vars |-> names, obj |-> obj, oden |-> src.den, off |-> src.off, flip |-> flip,
                  rows |-> [r \in 1..Len(rows) |-> [a |-> rows[r].a, b |-> rows[r].b]]]]
Rect == /\ Len(obj) = Len(names)
        /\ \A r \in 1..Len(rows) : Len(rows[r].a) = Len(names)
NoFreeLeft == pc \in {"normalize", "flipobj", "fliprhs", "done"} => free = {} /\ \A r \in 1..Len(rows) : Len(rows[r].a) = Len(names)
AllEqualities == pc \in {"flipobj", "fliprhs", "done"} => \A r \in 1..Len(rows) : rows[r].cmp = "eq"
DistinctNames == \A i, j \in 1..Len(names) : i # j => names[i] # names[j]
SameProblem == pc = "done" =>
   /\ Rect
   /\ ShapeProblems(Pair) = {}
   /\ (KY(Pair) <= ExactMax => ExactProblems(Pair) = {})
   /\ Bad(Pair) = {}
Inv == NoFreeLeft /\ AllEqualities /\ DistinctNames /\ SameProblem
=============================================================================
