------------------------------ MODULE MCStdForm ------------------------------
(* Model-checking instance of StdForm: every continuous model with NV          *)
(* variables of the kinds below, up to NR rows with coefficients in COEF and   *)
(* right-hand sides in RHS, every objective over COEF, both directions.        *)
EXTENDS Integers, Sequences, FiniteSets
CONSTANTS NV, NR, P      \* P selects the coefficient set (a cfg file cannot write negative numbers)
COEF == IF P = 1 THEN {-2, -1, 0, 1} ELSE {-1, 0, 2}
RHS == {-2, 0, 1}
VARIABLES pc, src, names, free, rows, obj, flip

B(inf, n) == [inf |-> inf, n |-> n, d |-> 1]
KindSet == {[kind |-> "real", lo |-> B(-1, 0), hi |-> B(1, 0)],
            [kind |-> "real", lo |-> B(0, -1), hi |-> B(0, 2)],
            [kind |-> "real", lo |-> B(0, 0), hi |-> B(1, 0)],
            [kind |-> "real", lo |-> B(-1, 0), hi |-> B(0, -1)],
            [kind |-> "nnreal", lo |-> B(0, 0), hi |-> B(1, 0)],
            [kind |-> "nnreal", lo |-> B(0, 1), hi |-> B(0, 3)],
            [kind |-> "nnreal", lo |-> B(0, 0), hi |-> B(0, 2)]}
VarName(i) == IF i = 1 THEN "v0" ELSE IF i = 2 THEN "v1" ELSE "v2"
Vecs == [1..NV -> COEF]
RowSet == {[a |-> a, cmp |-> c, b |-> b, name |-> ""] : a \in Vecs, c \in {"le", "ge", "eq"}, b \in RHS}
RowSeqs == UNION {[1..n -> RowSet] : n \in 0..NR}
ModelSet == {[vars |-> [i \in 1..NV |-> [name |-> VarName(i), kind |-> k[i].kind, lo |-> k[i].lo, hi |-> k[i].hi]],
              rows |-> rs, obj |-> o, off |-> off, den |-> 1, sense |-> s]
               : k \in [1..NV -> KindSet], rs \in RowSeqs, o \in Vecs, off \in {0, 1}, s \in {"min", "max"}}
INSTANCE StdForm WITH MODELS <- ModelSet
=============================================================================
