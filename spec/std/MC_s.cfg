SPECIFICATION Spec
CONSTANTS NV = 1
 NR = 1
 P = 1
INVARIANT Inv
CHECK_DEADLOCK FALSE
