----------------------------- MODULE StdFormTrace -----------------------------
(* Trace specification for  LinearModel --into_standard_form--> standard form *)
(* (property C13; output observed through hook H2).                           *)
(* Shape: every right-hand side >= 0 (all rows are equalities and all         *)
(* variables non-negative by the type of the output).                         *)
(* Correspondence: the columns of the standard form are                       *)
(*   - images of original variables: the variable itself, or the pair         *)
(*     "$p|"name / "$m|"name for a free (Real) variable, x = p - m            *)
(*   - slack / surplus columns: every other column; each must occur in        *)
(*     exactly one row, so its value is determined by that row                *)
(* For EVERY grid assignment y of the image columns (both halves of a split   *)
(* range independently, so non-canonical splits are covered) let x be the     *)
(* mapped-back original point.  Then                                          *)
(*      y extends to a feasible standard-form point  <=>  x is feasible for   *)
(*      the original model (rows and bounds),                                 *)
(* and in that case  sign * (c' . y) + offset' = c . x + offset.              *)
(* Since every original grid point has its canonical image in the y grid this *)
(* covers both directions of the property.                                    *)
EXTENDS Sem, Json, IOUtils, TLC, SequencesExt

Rec == ndJsonDeserialize(IOEnv.TRACE)
Start == atoi(IOEnv.START)
VARIABLE l
vars == <<l>>

YGrid == {R(0), <<1, 2>>, R(1), R(2), R(3)}

NO(ev) == Len(ev.vars)
NS(ev) == Len(ev.std.vars)
StdIdx(ev, nm) == {j \in 1..NS(ev) : ev.std.vars[j] = nm}
IsFree(v) == v.kind = "real"
\* image columns of original variable i: <<pos, neg>> (neg = 0 when not split)
Image(ev, i) ==
   LET v == ev.vars[i] IN
   IF IsFree(v) THEN <<StdIdx(ev, "$p|" \o v.name), StdIdx(ev, "$m|" \o v.name)>>
   ELSE <<StdIdx(ev, v.name), {}>>
ImageCols(ev) == UNION {Image(ev, i)[1] \cup Image(ev, i)[2] : i \in 1..NO(ev)}
SlackCols(ev) == (1..NS(ev)) \ ImageCols(ev)
RowsOf(ev, j) == {r \in 1..Len(ev.std.rows) : ev.std.rows[r].a[j] # 0}

ShapeProblems(ev) ==
   (IF \E r \in 1..Len(ev.std.rows) : ev.std.rows[r].b < 0 THEN {"negative right-hand side"} ELSE {})
   \cup (IF \E i \in 1..NO(ev) : Cardinality(Image(ev, i)[1]) # 1
                                 \/ Cardinality(Image(ev, i)[2]) # (IF IsFree(ev.vars[i]) THEN 1 ELSE 0)
         THEN {"original variable without its image column(s)"} ELSE {})
   \cup (IF \E j \in SlackCols(ev) : Cardinality(RowsOf(ev, j)) # 1 THEN {"slack column not in exactly one row"} ELSE {})
   \cup (IF \E j \in SlackCols(ev) : ev.std.obj[j] # 0 THEN {"slack column with a cost"} ELSE {})
   \cup (IF \E r \in 1..Len(ev.std.rows) : Cardinality({j \in SlackCols(ev) : ev.std.rows[r].a[j] # 0}) > 1
         THEN {"row with two slack columns"} ELSE {})
   \cup (IF Len(ev.std.obj) # NS(ev) \/ \E r \in 1..Len(ev.std.rows) : Len(ev.std.rows[r].a) # NS(ev)
         THEN {"ragged row"} ELSE {})
   \cup (IF ev.std.flip # (ev.sense = "max") THEN {"objective flip not recorded"} ELSE {})

\* assignments of the image columns
ImgSeq(ev) == SetToSeq(ImageCols(ev))
RECURSIVE YEnvs(_, _)
YEnvs(cols, i) == IF i > Len(cols) THEN {<<>>}
                  ELSE {(cols[i] :> v) @@ e : v \in YGrid, e \in YEnvs(cols, i + 1)}

RECURSIVE SumR(_, _, _)
SumR(f(_), k, n) == IF k > n THEN R(0) ELSE RAdd(f(k), SumR(f, k + 1, n))
One(S) == CHOOSE x \in S : TRUE
XOf(ev, y, i) == LET im == Image(ev, i) IN
                 IF im[2] = {} THEN y[One(im[1])] ELSE RSub(y[One(im[1])], y[One(im[2])])
\* standard side: residual of row r over image columns, slack solves the rest
Resid(ev, y, r) == LET row == ev.std.rows[r]
                       f(j) == IF j \in DOMAIN y THEN RMul(R(row.a[j]), y[j]) ELSE R(0)
                   IN  RSub(R(row.b), SumR(f, 1, NS(ev)))
StdFeasible(ev, y) ==
   \A r \in 1..Len(ev.std.rows) :
      LET sl == {j \in SlackCols(ev) : ev.std.rows[r].a[j] # 0}
          res == Resid(ev, y, r)
      IN  IF sl = {} THEN RZero(res)
          ELSE LET a == ev.std.rows[r].a[One(sl)] IN
               \* slack value = res / a must be >= 0
               IF a > 0 THEN RLe(R(0), res) ELSE RLe(res, R(0))
\* original side
OrigFeasible(ev, y) ==
   /\ \A i \in 1..NO(ev) : InDom(ev.vars[i], XOf(ev, y, i))
   /\ \A r \in 1..Len(ev.rows) :
        LET row == ev.rows[r]
            f(i) == RMul(Norm(row.a[i], ev.den), XOf(ev, y, i))
        IN  Cmp(row.cmp, SumR(f, 1, NO(ev)), Norm(row.b, ev.den))
OrigObj(ev, y) == LET f(i) == RMul(Norm(ev.obj[i], ev.den), XOf(ev, y, i))
                  IN  RAdd(SumR(f, 1, NO(ev)), Norm(ev.off, ev.den))
StdObj(ev, y) == LET f(j) == IF j \in DOMAIN y THEN RMul(Norm(ev.std.obj[j], ev.std.oden), y[j]) ELSE R(0)
                     s == SumR(f, 1, NS(ev))
                 IN  RAdd(IF ev.std.flip THEN RNeg(s) ELSE s, Norm(ev.std.off, ev.std.oden))

Bad(ev) == {y \in YEnvs(ImgSeq(ev), 1) :
              \/ StdFeasible(ev, y) # OrigFeasible(ev, y)
              \/ (OrigFeasible(ev, y) /\ StdObj(ev, y) # OrigObj(ev, y))}

Continuous(ev) == \A i \in 1..NO(ev) : ev.vars[i].kind \in {"real", "nnreal"}
Check(ev) ==
   CASE ev.out = "panic" -> PrintT(<<"REJECT", "C13", ev.id, "panic", "">>)
     [] ev.out = "err" ->
          IF Continuous(ev) /\ ev.sense \in {"min", "max"}
          THEN PrintT(<<"REJECT", "C13", ev.id, "continuous model rejected: " \o ev.errkind, "">>)
          ELSE PrintT(<<"STAT", ev.id, "rejected", 0, 0>>)
     [] ev.out = "ok" ->
          IF ~(Continuous(ev) /\ ev.sense \in {"min", "max"})
          THEN PrintT(<<"REJECT", "C13", ev.id, "non-continuous model accepted", "">>)
          ELSE LET sp == ShapeProblems(ev) IN
               IF sp # {} THEN PrintT(<<"REJECT", "C13", ev.id, CHOOSE p \in sp : TRUE, ToJson(sp)>>)
               ELSE LET bad == Bad(ev) IN
                    IF bad # {} THEN PrintT(<<"REJECT", "C13", ev.id, "correspondence", ToJson(CHOOSE y \in bad : TRUE)>>)
                    ELSE PrintT(<<"STAT", ev.id, "ok", Cardinality(YEnvs(ImgSeq(ev), 1)),
                                  Cardinality({y \in YEnvs(ImgSeq(ev), 1) : OrigFeasible(ev, y)})>>)
     [] OTHER -> PrintT(<<"SKIP", ev.id, ev.out>>)

Init == l = Start
Next == l <= Len(Rec) /\ Check(Rec[l]) /\ l' = l + 1
Spec == Init /\ [][Next]_vars
Accepted == IF TLCGet("stats").diameter = Len(Rec) - Start + 2
            THEN PrintT(<<"ACCEPTED", Len(Rec) - Start + 1>>)
            ELSE PrintT(<<"INCOMPLETE", TLCGet("stats").diameter>>) /\ FALSE
=============================================================================
