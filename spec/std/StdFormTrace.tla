----------------------------- MODULE StdFormTrace -----------------------------
(* Trace specification for  LinearModel --into_standard_form--> standard form *)
(* (property C13; output observed through hook H2).                           *)
(* Shape: every right-hand side >= 0 (all rows are equalities and all         *)
(* variables non-negative by the type of the output).                         *)
(* Correspondence: the columns of the standard form are                       *)
(*   - images of original variables: the variable itself, or the pair         *)
(*     "$p|"name / "$m|"name for a free (Real) variable, x = p - m            *)
(*   - slack / surplus columns: every other column; each must occur in        *)
(*     exactly one row, so its value is determined by that row                *)
(* For EVERY grid assignment y of the image columns (both halves of a split   *)
(* range independently, so non-canonical splits are covered) let x be the     *)
(* mapped-back original point.  Then                                          *)
(*      y extends to a feasible standard-form point  <=>  x is feasible for   *)
(*      the original model (rows and bounds),                                 *)
(* and in that case  sign * (c' . y) + offset' = c . x + offset.              *)
(* Since every original grid point has its canonical image in the y grid this *)
(* covers both directions of the property.                                    *)
EXTENDS StdCorr, Json, IOUtils

Rec == ndJsonDeserialize(IOEnv.TRACE)
Start == atoi(IOEnv.START)
VARIABLE l
vars == <<l>>

Check(ev) ==
   CASE ev.out = "panic" -> PrintT(<<"REJECT", "C13", ev.id, "panic", "">>)
     [] ev.out = "err" ->
          IF Continuous(ev) /\ ev.sense \in {"min", "max"}
          THEN PrintT(<<"REJECT", "C13", ev.id, "continuous model rejected: " \o ev.errkind, "">>)
          ELSE PrintT(<<"STAT", ev.id, "rejected", 0, 0>>)
     [] ev.out = "ok" ->
          IF ~(Continuous(ev) /\ ev.sense \in {"min", "max"})
          THEN PrintT(<<"REJECT", "C13", ev.id, "non-continuous model accepted", "">>)
          ELSE LET sp == ShapeProblems(ev) IN
               IF sp # {} THEN PrintT(<<"REJECT", "C13", ev.id, CHOOSE p \in sp : TRUE, ToJson(sp)>>)
               ELSE LET bad == Bad(ev) IN
                    IF bad # {} THEN PrintT(<<"REJECT", "C13", ev.id, "correspondence", ToJson(CHOOSE y \in bad : TRUE)>>)
                    ELSE LET xp == IF KY(ev) <= ExactMax THEN ExactProblems(ev) ELSE {} IN
                    IF xp # {} THEN PrintT(<<"REJECT", "C13", ev.id, CHOOSE p \in xp : TRUE, ToJson(xp)>>)
                    ELSE PrintT(<<"STAT", ev.id, "ok", Cardinality(YEnvs(ImgSeq(ev), 1)),
                                  Cardinality({y \in YEnvs(ImgSeq(ev), 1) : OrigFeasible(ev, y)})>>)
     [] OTHER -> PrintT(<<"SKIP", ev.id, ev.out>>)

Init == l = Start
Next == l <= Len(Rec) /\ Check(Rec[l]) /\ l' = l + 1
Spec == Init /\ [][Next]_vars
Accepted == IF TLCGet("stats").diameter = Len(Rec) - Start + 2
            THEN PrintT(<<"ACCEPTED", Len(Rec) - Start + 1>>)
            ELSE PrintT(<<"INCOMPLETE", TLCGet("stats").diameter>>) /\ FALSE
=============================================================================
