SPECIFICATION Spec
CONSTANTS NV = 2
 NR = 2
 P = 2
INVARIANT Inv
CHECK_DEADLOCK FALSE
