SPECIFICATION Spec
CONSTANTS NV = 2
 NR = 1
 P = 2
INVARIANT Inv
CHECK_DEADLOCK FALSE
