------------------------------- MODULE StdCorr -------------------------------
(* The meaning of "the standard form is the same problem" (property C13) as    *)
(* operators on a pair (linear model, standard form) - a record ev with the    *)
(* fields vars, rows, obj, off, den, sense and std = [vars, rows, obj, oden,   *)
(* off, flip].  Used by the trace specification StdFormTrace (the pair comes   *)
(* from the real code, hook H2) and by the design machine StdForm (the pair    *)
(* comes from the transcription of the algorithm, model-checked by TLC).       *)
EXTENDS Sem, FM, TLC, SequencesExt

YGrid == {R(0), <<1, 2>>, R(1), R(2), R(3)}

NO(ev) == Len(ev.vars)
NS(ev) == Len(ev.std.vars)
StdIdx(ev, nm) == {j \in 1..NS(ev) : ev.std.vars[j] = nm}
IsFree(v) == v.kind = "real"
\* image columns of original variable i: <<pos, neg>> (neg = 0 when not split)
Image(ev, i) ==
   LET v == ev.vars[i] IN
   IF IsFree(v) THEN <<StdIdx(ev, "$p|" \o v.name), StdIdx(ev, "$m|" \o v.name)>>
   ELSE <<StdIdx(ev, v.name), {}>>
ImageCols(ev) == UNION {Image(ev, i)[1] \cup Image(ev, i)[2] : i \in 1..NO(ev)}
SlackCols(ev) == (1..NS(ev)) \ ImageCols(ev)
RowsOf(ev, j) == {r \in 1..Len(ev.std.rows) : ev.std.rows[r].a[j] # 0}

ShapeProblems(ev) ==
   (IF \E r \in 1..Len(ev.std.rows) : ev.std.rows[r].b < 0 THEN {"negative right-hand side"} ELSE {})
   \cup (IF \E i \in 1..NO(ev) : Cardinality(Image(ev, i)[1]) # 1
                                 \/ Cardinality(Image(ev, i)[2]) # (IF IsFree(ev.vars[i]) THEN 1 ELSE 0)
         THEN {"original variable without its image column(s)"} ELSE {})
   \cup (IF \E j \in SlackCols(ev) : Cardinality(RowsOf(ev, j)) # 1 THEN {"slack column not in exactly one row"} ELSE {})
   \cup (IF \E j \in SlackCols(ev) : ev.std.obj[j] # 0 THEN {"slack column with a cost"} ELSE {})
   \cup (IF \E r \in 1..Len(ev.std.rows) : Cardinality({j \in SlackCols(ev) : ev.std.rows[r].a[j] # 0}) > 1
         THEN {"row with two slack columns"} ELSE {})
   \cup (IF Len(ev.std.obj) # NS(ev) \/ \E r \in 1..Len(ev.std.rows) : Len(ev.std.rows[r].a) # NS(ev)
         THEN {"ragged row"} ELSE {})
   \cup (IF ev.std.flip # (ev.sense = "max") THEN {"objective flip not recorded"} ELSE {})

\* assignments of the image columns
ImgSeq(ev) == SetToSeq(ImageCols(ev))
RECURSIVE YEnvs(_, _)
YEnvs(cols, i) == IF i > Len(cols) THEN {<<>>}
                  ELSE {(cols[i] :> v) @@ e : v \in YGrid, e \in YEnvs(cols, i + 1)}

RECURSIVE SumR(_, _, _)
SumR(f(_), k, n) == IF k > n THEN R(0) ELSE RAdd(f(k), SumR(f, k + 1, n))
One(S) == CHOOSE x \in S : TRUE
XOf(ev, y, i) == LET im == Image(ev, i) IN
                 IF im[2] = {} THEN y[One(im[1])] ELSE RSub(y[One(im[1])], y[One(im[2])])
\* standard side: residual of row r over image columns, slack solves the rest
Resid(ev, y, r) == LET row == ev.std.rows[r]
                       f(j) == IF j \in DOMAIN y THEN RMul(R(row.a[j]), y[j]) ELSE R(0)
                   IN  RSub(R(row.b), SumR(f, 1, NS(ev)))
StdFeasible(ev, y) ==
   \A r \in 1..Len(ev.std.rows) :
      LET sl == {j \in SlackCols(ev) : ev.std.rows[r].a[j] # 0}
          res == Resid(ev, y, r)
      IN  IF sl = {} THEN RZero(res)
          ELSE LET a == ev.std.rows[r].a[One(sl)] IN
               \* slack value = res / a must be >= 0
               IF a > 0 THEN RLe(R(0), res) ELSE RLe(res, R(0))
\* original side
OrigFeasible(ev, y) ==
   /\ \A i \in 1..NO(ev) : InDom(ev.vars[i], XOf(ev, y, i))
   /\ \A r \in 1..Len(ev.rows) :
        LET row == ev.rows[r]
            f(i) == RMul(Norm(row.a[i], ev.den), XOf(ev, y, i))
        IN  Cmp(row.cmp, SumR(f, 1, NO(ev)), Norm(row.b, ev.den))
OrigObj(ev, y) == LET f(i) == RMul(Norm(ev.obj[i], ev.den), XOf(ev, y, i))
                  IN  RAdd(SumR(f, 1, NO(ev)), Norm(ev.off, ev.den))
StdObj(ev, y) == LET f(j) == IF j \in DOMAIN y THEN RMul(Norm(ev.std.obj[j], ev.std.oden), y[j]) ELSE R(0)
                     s == SumR(f, 1, NS(ev))
                 IN  RAdd(IF ev.std.flip THEN RNeg(s) ELSE s, Norm(ev.std.off, ev.std.oden))

Bad(ev) == {y \in YEnvs(ImgSeq(ev), 1) :
              \/ StdFeasible(ev, y) # OrigFeasible(ev, y)
              \/ (OrigFeasible(ev, y) /\ StdObj(ev, y) # OrigObj(ev, y))}

(* ---- exact correspondence (no grid): both feasible sets are polyhedra in the   *)
(* space of the image columns y >= 0 (slack / surplus columns are determined by   *)
(* their row, so a standard row with a slack of sign s is the inequality          *)
(* s * (b - a.y) >= 0; the original rows and bounds are pulled back through       *)
(* x = p - m).  The two sets are equal iff every inequality of one is implied by  *)
(* the other system, and an implication  P => g.y <= h  is  max{g.y : P} <= h,    *)
(* decided exactly by Fourier-Motzkin (FM!OptMin on column 1 = t = -g.y).  The    *)
(* objectives agree on the set iff min and max of their difference are both 0.    *)
KY(ev) == Len(ImgSeq(ev))
\* FM row over <<t, y_1 .. y_K>> from a coefficient function on standard columns
FRow(ev, tc, g(_), b) == [a |-> <<tc>> \o [k \in 1..KY(ev) |-> g(ImgSeq(ev)[k])], b |-> b]
NonNeg(ev) == {FRow(ev, 0, LAMBDA j : IF j = c THEN -1 ELSE 0, 0) : c \in ImageCols(ev)}
StdSys(ev) ==
   NonNeg(ev) \cup UNION {
      LET row == ev.std.rows[r]
          sl == {j \in SlackCols(ev) : row.a[j] # 0}
          s == IF sl = {} THEN 0 ELSE row.a[One(sl)]
          le == FRow(ev, 0, LAMBDA j : row.a[j], row.b)
          ge == FRow(ev, 0, LAMBDA j : -row.a[j], -row.b)
      IN  IF s = 0 THEN {le, ge} ELSE IF s > 0 THEN {le} ELSE {ge}
      : r \in 1..Len(ev.std.rows)}
\* coefficient of standard column j in  sum_i a[i] * x_i  with x_i = p_i - m_i
Pull(ev, a, j) == LET f(i) == LET im == Image(ev, i) IN
                              IF j \in im[1] THEN R(a[i]) ELSE IF j \in im[2] THEN R(-a[i]) ELSE R(0)
                  IN  SumR(f, 1, NO(ev))[1]
Unit(ev, i, k) == [n \in 1..NO(ev) |-> IF n = i THEN k ELSE 0]
OrigSys(ev) ==
   NonNeg(ev)
   \cup UNION {
      LET row == ev.rows[r]
          le == FRow(ev, 0, LAMBDA j : Pull(ev, row.a, j), row.b)
          ge == FRow(ev, 0, LAMBDA j : -Pull(ev, row.a, j), -row.b)
      IN  CASE row.cmp = "le" -> {le} [] row.cmp = "ge" -> {ge} [] OTHER -> {le, ge}
      : r \in 1..Len(ev.rows)}
   \cup UNION {
      LET v == ev.vars[i] IN
      (IF v.lo.inf = 0 THEN {FRow(ev, 0, LAMBDA j : -Pull(ev, Unit(ev, i, v.lo.d), j), -v.lo.n)} ELSE {})
      \cup (IF v.hi.inf = 0 THEN {FRow(ev, 0, LAMBDA j : Pull(ev, Unit(ev, i, v.hi.d), j), v.hi.n)} ELSE {})
      \cup (IF v.lo.inf = 1 \/ v.hi.inf = -1 THEN {FRow(ev, 0, LAMBDA j : 0, -1)} ELSE {})
      : i \in 1..NO(ev)}
\* max of row.a . y over sys is at most row.b  (an empty sys implies everything)
Implied(ev, sys, row) ==
   LET tie == {[a |-> <<1>> \o Tail(row.a), b |-> 0],
               [a |-> <<-1>> \o [k \in 1..KY(ev) |-> -row.a[k + 1]], b |-> 0]}
       q == OptMin(sys \cup tie, KY(ev) + 1)
   IN  q.st = "inf" \/ (q.st = "opt" /\ RLe(RNeg(q.v), R(row.b)))
\* G.y + G0 = den * (sign * obj'.y + off') - oden' * (obj.My + off), zero on the set
ObjDiffRow(ev, sg) ==
   LET sign == IF ev.std.flip THEN -1 ELSE 1
       g(j) == sg * (ev.den * sign * ev.std.obj[j] - ev.std.oden * Pull(ev, ev.obj, j))
   IN  FRow(ev, 0, g, 0)
ObjDiff0(ev) == ev.den * ev.std.off - ev.std.oden * ev.off
ObjAgrees(ev, sys) ==
   \A sg \in {1, -1} :
      LET row == ObjDiffRow(ev, sg) IN
      \/ ((\A k \in 1..KY(ev) : row.a[k + 1] = 0) /\ ObjDiff0(ev) = 0)
      \/ Implied(ev, sys, [a |-> row.a, b |-> -sg * ObjDiff0(ev)])
\* Fourier-Motzkin is doubly exponential in the number of eliminated columns: the exact comparison is made for up to
\* ExactMax image columns (all models of one or two variables, models of three with at most one free variable);
\* beyond that the grid alone judges the event
ExactMax == 4
ExactProblems(ev) ==
   LET S == StdSys(ev)
       O == OrigSys(ev)
   IN  (IF \E row \in O : ~Implied(ev, S, row) THEN {"exact: a standard-form point maps to an infeasible original point"} ELSE {})
       \cup (IF \E row \in S : ~Implied(ev, O, row) THEN {"exact: a feasible original point has no standard-form image"} ELSE {})
       \cup (IF ~ObjAgrees(ev, S) THEN {"exact: objective differs on the feasible set"} ELSE {})


Continuous(ev) == \A i \in 1..NO(ev) : ev.vars[i].kind \in {"real", "nnreal"}
=============================================================================
