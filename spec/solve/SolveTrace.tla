------------------------------ MODULE SolveTrace ------------------------------
(* Trace specification for the action  Solve(entry) : LinearModel -> verdict  *)
(* One event = one call of one built-in solver entry point on one model.      *)
(*   C04  a returned solution is complete, feasible (rows, bounds,            *)
(*        integrality), its reported value is the objective at the returned   *)
(*        point, named-row activities are the rows' left-hand sides           *)
(*   C05  the verdict equals the exact verdict Verdict(ev): integer variables *)
(*        are enumerated over their ranges, the continuous part is decided    *)
(*        by Fourier-Motzkin (FM!OptMin)                                      *)
(* Float answers arrive snapped to the unique rational with denominator <= 500*)
(* within 1e-6 (field snap = TRUE) and, always, rounded to 1e-4 units (c);    *)
(* when no snap exists the coarse value is compared with tolerance.           *)
EXTENDS Sem, FM, Json, IOUtils, TLC, SequencesExt

Rec == ndJsonDeserialize(IOEnv.TRACE)
Props == IOEnv.PROPS
Start == atoi(IOEnv.START)
Has(p) == \E i \in 1..(Len(Props) - 2) : SubSeq(Props, i, i + 2) = p
VARIABLE l
vars == <<l>>
CS == 10000                       \* coarse scale
CTol == 10                        \* coarse tolerance (1e-3) per unit coefficient

NV(ev) == Len(ev.vars)
Coef(ev, x) == Norm(x, ev.den)
RECURSIVE SumR(_, _, _)
SumR(f(_), k, n) == IF k > n THEN R(0) ELSE RAdd(f(k), SumR(f, k + 1, n))
RECURSIVE SumI(_, _, _)
SumI(f(_), k, n) == IF k > n THEN 0 ELSE f(k) + SumI(f, k + 1, n)

\* floor(x * 10^6) for a rational x >= 0, computed by long division so that no
\* product exceeds 1000 * denominator (TLC integers are 32 bit); saturates at 10^6
Micro(x) == IF x[1] >= x[2] THEN 1000000
            ELSE LET q1 == (x[1] * 1000) \div x[2]
                     r1 == (x[1] * 1000) % x[2]
                 IN  q1 * 1000 + (r1 * 1000) \div x[2]
CeilAbs(v) == LET a == AbsI(v[1]) IN (a + v[2] - 1) \div v[2]
MaxI(a, b) == IF a >= b THEN a ELSE b
\* |w - v| <= k * 1e-6 * max(1, |v|)
CloseRel(w, v, k) == Micro(RAbs(RSub(w, v))) <= k * MaxI(1, CeilAbs(v))

---------------------------------------------------------------------------
(* exact verdict of a (mixed-integer) linear model *)
IntIdx(ev) == SelectSeq([i \in 1..NV(ev) |-> i], LAMBDA i : ev.vars[i].kind \in {"bool", "int"})
ContIdx(ev) == SelectSeq([i \in 1..NV(ev) |-> i], LAMBDA i : ev.vars[i].kind \in {"real", "nnreal"})
IntRange(v) == IF v.kind = "bool" THEN 0..1 ELSE (-((-v.lo.n) \div v.lo.d))..(v.hi.n \div v.hi.d)
\* rows over <<T>> \o continuous columns, integers fixed by `fx` (index -> integer value); coefficients and right-hand sides are the den-scaled integers on both sides
Dot(a, fx, ii, k) == LET f(j) == a[ii[j]] * fx[ii[j]] IN SumI(f, 1, k)
RowLE(ev, r, fx, neg) ==
   LET m == IF neg THEN -1 ELSE 1
       ci == ContIdx(ev)
       ii == IntIdx(ev)
   IN  [a |-> <<0>> \o [j \in 1..Len(ci) |-> m * r.a[ci[j]]],
        b |-> m * (r.b - Dot(r.a, fx, ii, Len(ii)))]
RowSet(ev, r, fx) ==
   CASE r.cmp = "le" -> {RowLE(ev, r, fx, FALSE)}
     [] r.cmp = "ge" -> {RowLE(ev, r, fx, TRUE)}
     [] r.cmp = "eq" -> {RowLE(ev, r, fx, FALSE), RowLE(ev, r, fx, TRUE)}
UnitC(n, j, c) == <<0>> \o [k \in 1..n |-> IF k = j THEN c ELSE 0]
DomRows(ev) ==
   LET ci == ContIdx(ev) IN
   UNION {LET v == ev.vars[ci[j]] IN
          (IF v.lo.inf = 0 THEN {[a |-> UnitC(Len(ci), j, -v.lo.d), b |-> -v.lo.n]} ELSE {})
          \cup (IF v.hi.inf = 0 THEN {[a |-> UnitC(Len(ci), j, v.hi.d), b |-> v.hi.n]} ELSE {})
          \cup (IF v.kind = "nnreal" THEN {[a |-> UnitC(Len(ci), j, -1), b |-> 0]} ELSE {})
          : j \in 1..Len(ci)}
\* objective row: den * T - sgn * sum(obj_c u) = sgn * (sum obj_i fx_i + off)
ObjRows(ev, fx, sgn) ==
   LET ci == ContIdx(ev)
       ii == IntIdx(ev)
       a == <<ev.den>> \o [j \in 1..Len(ci) |-> -sgn * ev.obj[ci[j]]]
       b == sgn * (Dot(ev.obj, fx, ii, Len(ii)) + ev.off)
   IN  {[a |-> a, b |-> b], [a |-> [k \in 1..Len(a) |-> -a[k]], b |-> -b]}
Sgn(ev) == IF ev.sense = "max" THEN -1 ELSE 1
AllRows(ev, fx) ==
   UNION {RowSet(ev, ev.rows[k], fx) : k \in 1..Len(ev.rows)} \cup DomRows(ev)
   \cup ObjRows(ev, fx, Sgn(ev))
Sub(ev, fx) == OptMin(AllRows(ev, fx), Len(ContIdx(ev)) + 1)
Join(p, q) == IF p.st = "unb" \/ q.st = "unb" THEN [st |-> "unb"]
              ELSE IF p.st = "inf" THEN q ELSE IF q.st = "inf" THEN p
              ELSE IF RLe(p.v, q.v) THEN p ELSE q
RECURSIVE Enum(_, _, _)
Enum(ev, fx, k) ==
   LET ii == IntIdx(ev) IN
   IF k > Len(ii) THEN Sub(ev, fx)
   ELSE LET rng == IntRange(ev.vars[ii[k]])
            RECURSIVE Over(_)
            Over(x) == IF x > CHOOSE m \in rng : \A y \in rng : y <= m THEN [st |-> "inf"]
                       ELSE Join(Enum(ev, fx @@ (ii[k] :> x), k + 1), Over(x + 1))
        IN  IF rng = {} THEN [st |-> "inf"] ELSE Over(CHOOSE m \in rng : \A y \in rng : m <= y)
\* [st |-> "inf"] | [st |-> "unb"] | [st |-> "opt", v |-> optimal objective in the user's sense]
Verdict(ev) == LET r == Enum(ev, <<>>, 1) IN
               IF r.st = "opt" THEN [st |-> "opt", v |-> IF Sgn(ev) = 1 THEN r.v ELSE RNeg(r.v)] ELSE r

---------------------------------------------------------------------------
(* C04: the returned point *)
PointNames(ev) == [i \in 1..Len(ev.sol.point) |-> ev.sol.point[i].name]
Complete(ev) == /\ Len(ev.sol.point) = NV(ev)
                /\ \A i \in 1..NV(ev) : Cardinality({j \in 1..Len(ev.sol.point) : ev.sol.point[j].name = ev.vars[i].name}) = 1
ValOf(ev, i) == ev.sol.point[CHOOSE j \in 1..Len(ev.sol.point) : ev.sol.point[j].name = ev.vars[i].name].v
AllSnapped(ev) == \A j \in 1..Len(ev.sol.point) : ev.sol.point[j].v.snap
X(ev, i) == LET o == ValOf(ev, i) IN Norm(o.n, o.d)
Lhs(ev, r) == LET f(i) == RMul(Coef(ev, r.a[i]), X(ev, i)) IN SumR(f, 1, NV(ev))
ObjAt(ev) == LET f(i) == RMul(Coef(ev, ev.obj[i]), X(ev, i)) IN RAdd(SumR(f, 1, NV(ev)), Coef(ev, ev.off))
\* exact path
ExactProblems(ev) ==
   (IF \E i \in 1..NV(ev) : ~InDom(ev.vars[i], X(ev, i)) THEN {"value outside its domain"} ELSE {})
   \cup (IF \E k \in 1..Len(ev.rows) : ~Cmp(ev.rows[k].cmp, Lhs(ev, ev.rows[k]), Coef(ev, ev.rows[k].b)) THEN {"row violated"} ELSE {})
   \cup (IF ev.sol.value.snap /\ Norm(ev.sol.value.n, ev.sol.value.d) # ObjAt(ev) THEN {"reported value is not the objective at the point"} ELSE {})
   \cup (IF \E j \in 1..Len(ev.sol.cons) : ev.sol.cons[j].name # "" /\ ev.sol.cons[j].v.snap /\
              \E k \in 1..Len(ev.rows) : ev.rows[k].name = ev.sol.cons[j].name /\
                 (\A k2 \in 1..(k - 1) : ev.rows[k2].name # ev.rows[k].name) /\
                 Norm(ev.sol.cons[j].v.n, ev.sol.cons[j].v.d) # Lhs(ev, ev.rows[k])
         THEN {"named row activity differs from the row's left-hand side"} ELSE {})
\* coarse path (some coordinate not snappable): integers scaled by CS, tolerance CTol per unit of |a|
CX(ev, i) == ValOf(ev, i).c
CAbs(x) == IF x < 0 THEN -x ELSE x
CLhs(ev, a) == LET f(i) == a[i] * CX(ev, i) IN SumI(f, 1, NV(ev))
CSlack(ev, a) == LET f(i) == CAbs(a[i]) * CTol IN SumI(f, 1, NV(ev)) + CTol * ev.den
CoarseProblems(ev) ==
   (IF \E k \in 1..Len(ev.rows) :
        LET r == ev.rows[k]
            lhs == CLhs(ev, r.a)
            rhs == r.b * CS
            t == CSlack(ev, r.a)
        IN  ~CASE r.cmp = "le" -> lhs <= rhs + t [] r.cmp = "ge" -> lhs >= rhs - t
              [] r.cmp = "eq" -> lhs <= rhs + t /\ lhs >= rhs - t
    THEN {"row violated (coarse)"} ELSE {})
   \cup (IF \E i \in 1..NV(ev) :
        LET v == ev.vars[i]
            x == CX(ev, i)
        IN  \/ (v.lo.inf = 0 /\ x * v.lo.d < v.lo.n * CS - CTol * v.lo.d)
            \/ (v.hi.inf = 0 /\ x * v.hi.d > v.hi.n * CS + CTol * v.hi.d)
            \/ (v.kind = "nnreal" /\ x < -CTol)
            \/ (v.kind \in {"bool", "int"} /\ ~ValOf(ev, i).snap)
    THEN {"value outside its domain (coarse)"} ELSE {})
   \cup (IF CAbs(CLhs(ev, ev.obj) + ev.off * CS - ev.sol.value.c * ev.den) > CSlack(ev, ev.obj)
         THEN {"reported value is not the objective at the point (coarse)"} ELSE {})
Usable(ev) == ev.sol.value.ok /\ \A j \in 1..Len(ev.sol.point) : ev.sol.point[j].v.ok
SimplexBasedEntry(ev) == ev.entry \notin {"clarabel", "text_clarabel"}
PointProblems(ev) ==
   IF ~Complete(ev) THEN {"not exactly one value per variable"}
   ELSE IF ~Usable(ev) THEN {"non-finite or huge value returned"}
   \* the exact path reads a float as the unique small-denominator rational next to it: right for
   \* vertex solutions (simplex-based entry points), wrong for an interior-point answer, whose
   \* coordinates on a non-vertex optimal face are arbitrary reals that a rational may sit next to by
   \* chance; those answers are always judged with the tolerance of the coarse path
   ELSE IF AllSnapped(ev) /\ SimplexBasedEntry(ev) THEN ExactProblems(ev) ELSE CoarseProblems(ev)

---------------------------------------------------------------------------
(* C05: the verdict *)
\* the tableau path maps its answer back to the model by name: a model variable named like a slack,
\* surplus or artificial column ($sl_k, $su_k, $a_k) cannot be told from one, and the conversion to standard
\* form refuses such a model.  (The halves of a split free variable x are called $p|x and $m|x, which no
\* model variable can be called: variables named $px, $mx or $max_0 next to a free ax_0 are ordinary variables.)
ReservedNames(ev) == UNION {{"$sl_" \o ToString(k), "$su_" \o ToString(k), "$a_" \o ToString(k)} : k \in 0..12}
Names(ev) == {ev.vars[i].name : i \in 1..NV(ev)}
Accepts(ev) == \* does this entry point accept the model at all?
   CASE ev.entry \in {"milp", "auto"} -> TRUE
     [] ev.entry = "real_microlp" -> ev.sense # "sat" /\ \A i \in 1..NV(ev) : ev.vars[i].kind \in {"real", "nnreal"}
     [] ev.entry = "simplex" -> ev.sense # "sat" /\ \A i \in 1..NV(ev) : ev.vars[i].kind \in {"real", "nnreal"} 
     [] ev.entry \in {"clarabel", "text_clarabel"} -> \A i \in 1..NV(ev) : ev.vars[i].kind \in {"real", "nnreal"}
SimplexBased(ev) == ev.entry \notin {"clarabel", "text_clarabel"}
\* the tableau entry MAY refuse a model whose variables are named like its own columns (it does, with a
\* plain error); an answer it gives for such a model is judged like any other
MayRefuse(ev) == ev.entry = "simplex" /\ \E i \in 1..NV(ev) : ev.vars[i].name \in ReservedNames(ev)
\* for a satisfy model only feasibility is judged
ValueOk(ev, v) ==
   IF ev.sense = "sat" THEN TRUE
   ELSE IF ev.sol.value.snap THEN
           CloseRel(Norm(ev.sol.value.n, ev.sol.value.d), v, 2)
        ELSE CAbs(ev.sol.value.c * v[2] - v[1] * CS) <= CTol * v[2] * (1 + CAbs(v[1]) \div v[2])
VerdictProblems(ev) ==
   LET vd == Verdict(ev) IN
   CASE ev.out = "solution" ->
          IF vd.st = "inf" THEN {"solution returned for an infeasible model"}
          ELSE IF vd.st = "unb" /\ ev.sense # "sat" THEN {"solution returned for an unbounded model"}
          ELSE IF vd.st = "opt" /\ ~ValueOk(ev, vd.v) THEN {"reported optimum differs from the true optimum"}
          ELSE {}
     [] ev.out = "error" ->
          IF ev.err.kind = "Infeasible" THEN (IF vd.st # "inf" THEN {"infeasible reported for a feasible model"} ELSE {})
          ELSE IF ev.err.kind = "Unbounded" THEN
               (IF vd.st = "unb" THEN {} ELSE IF vd.st = "inf" THEN {"unbounded reported for an infeasible model"}
                ELSE {"unbounded reported for a model with a finite optimum"})
          ELSE IF SimplexBased(ev) /\ ~MayRefuse(ev) THEN {"no verdict: error kind " \o ev.err.kind \o " on a small model (true verdict " \o vd.st \o ")"}
          ELSE {}
     [] OTHER -> {}

---------------------------------------------------------------------------
(* C20: shadow prices.  V(b) = optimal value as a function of one right-hand  *)
(* side; it is piecewise linear and convex (min) / concave (max).  If the two *)
(* secant slopes over [b - 1/8, b] and [b, b + 1/8] agree, V is linear there  *)
(* and that slope is the derivative: the reported dual must equal it.  When   *)
(* they differ (degenerate / non-unique dual) the row is outside the property *)
(* and not judged.                                                            *)
Times8(ev) == [ev EXCEPT !.den = 8 * ev.den,
                         !.obj = [j \in 1..Len(ev.obj) |-> 8 * ev.obj[j]],
                         !.off = 8 * ev.off,
                         !.rows = [k \in 1..Len(ev.rows) |->
                                     [ev.rows[k] EXCEPT !.a = [j \in 1..Len(ev.rows[k].a) |-> 8 * ev.rows[k].a[j]],
                                                        !.b = 8 * ev.rows[k].b]]]
Shift(ev8, k, dlt) == [ev8 EXCEPT !.rows[k].b = ev8.rows[k].b + dlt]
Slope(ev, k) ==
   LET e8 == Times8(ev)
       v0 == Verdict(e8)
       vp == Verdict(Shift(e8, k, 1))
       vm == Verdict(Shift(e8, k, -1))
   IN  IF v0.st = "opt" /\ vp.st = "opt" /\ vm.st = "opt" /\ RSub(vp.v, v0.v) = RSub(v0.v, vm.v)
       THEN [def |-> TRUE, v |-> RMul(R(8), RSub(vp.v, v0.v))]
       ELSE [def |-> FALSE, v |-> R(0)]
DualOf(ev, nm) == {j \in 1..Len(ev.sol.duals) : ev.sol.duals[j].name = nm}
FirstNamed(ev, k) == ev.rows[k].name # "" /\ \A k2 \in 1..(k - 1) : ev.rows[k2].name # ev.rows[k].name
DualClose(o, v) == IF o.snap THEN CloseRel(Norm(o.n, o.d), v, 10)
                   ELSE CAbs(o.c * v[2] - v[1] * CS) <= CTol * v[2]
DualProblems(ev) ==
   (IF \E j \in 1..Len(ev.sol.duals) : ev.sol.duals[j].name = "" \/ ~\E k \in 1..Len(ev.rows) : ev.rows[k].name = ev.sol.duals[j].name
    THEN {"dual reported for an unnamed or unknown row"} ELSE {})
   \cup (IF \E k \in 1..Len(ev.rows) : FirstNamed(ev, k) /\ Cardinality(DualOf(ev, ev.rows[k].name)) # 1
          THEN {"named row without exactly one dual"} ELSE {})
   \cup (IF \E k \in 1..Len(ev.rows) : FirstNamed(ev, k) /\ Cardinality(DualOf(ev, ev.rows[k].name)) = 1 /\
               Cardinality({k2 \in 1..Len(ev.rows) : ev.rows[k2].name = ev.rows[k].name}) = 1 /\
               LET sl == Slope(ev, k) IN sl.def /\ ~DualClose(ev.sol.duals[CHOOSE j \in DualOf(ev, ev.rows[k].name) : TRUE].v, sl.v)
          THEN {"shadow price differs from the sensitivity of the optimum"} ELSE {})
DualStat(ev) == PrintT(<<"DUAL", ev.id, Cardinality({k \in 1..Len(ev.rows) : FirstNamed(ev, k) /\ Slope(ev, k).def}),
                         Cardinality({k \in 1..Len(ev.rows) : FirstNamed(ev, k) /\ Slope(ev, k).def /\ ~RZero(Slope(ev, k).v)})>>)

---------------------------------------------------------------------------
(* C15: limits and tolerances.  The search steps and the timer are not       *)
(* observable; the specification states which RETURNS are allowed for a call *)
(* Call(model, gap, limit):                                                  *)
(*   invalid gap (negative, NaN, infinite)        -> an error, nothing else   *)
(*   a solution labelled Optimal                  -> feasible point, value    *)
(*        within the requested gap of the exact optimum                      *)
(*   a solution labelled Feasible                 -> feasible point           *)
(*   an error                                     -> allowed when a time      *)
(*        limit was set (stopped before a feasible point was known), or when *)
(*        it is the exact verdict (infeasible / unbounded)                   *)
InvalidGap(o) == o.gapk \in {"nan", "inf", "-inf"} \/ (o.gapk = "num" /\ o.gapn < 0)
GapOf(o) == IF o.gapk = "num" THEN Norm(o.gapn, o.gapd) ELSE R(0)
WithinGap(ev, opt) ==
   LET o == ev.sol.value IN
   IF o.snap THEN
      LET w == Norm(o.n, o.d)
          diff == RAbs(RSub(w, opt))
          scale == RMax(RAbs(w), RAbs(opt))
      IN  RLe(diff, RMul(GapOf(ev.opt), scale)) \/ CloseRel(w, opt, 2)
   ELSE \* coarse: value * opt.d vs opt.n * CS, tolerance gap * scale + 1e-3
      LET g == GapOf(ev.opt)
          sc == IF CAbs(o.c) * opt[2] > CAbs(opt[1]) * CS THEN CAbs(o.c) * opt[2] ELSE CAbs(opt[1]) * CS
      IN  CAbs(o.c * opt[2] - opt[1] * CS) * g[2] <= g[1] * sc + CTol * opt[2] * g[2]
LimitsProblems(ev) ==
   IF ev.out \in {"timeout", "panic"} THEN {"call did not return normally: " \o ev.out}
   ELSE IF InvalidGap(ev.opt) THEN (IF ev.out = "error" THEN {} ELSE {"invalid MIP gap accepted"})
   ELSE LET vd == Verdict(ev) IN
        IF ev.out = "solution" THEN
           (IF PointProblems(ev) # {} THEN {"returned solution is not feasible / self-consistent: " \o (CHOOSE p \in PointProblems(ev) : TRUE)} ELSE {})
           \cup (IF ev.sol.status = "Optimal" THEN
                    (IF vd.st # "opt" THEN {"labelled optimal but the model has no finite optimum"}
                     ELSE IF ~WithinGap(ev, vd.v) THEN {"labelled optimal but not within the requested gap of the true optimum"} ELSE {})
                 ELSE IF ev.sol.status = "Feasible" THEN {}
                 ELSE {"unexpected status label " \o ev.sol.status})
        ELSE \* error
           IF ev.opt.limit >= 0 THEN {}
           ELSE IF ev.err.kind = "Infeasible" /\ vd.st = "inf" THEN {}
           ELSE IF ev.err.kind = "Unbounded" /\ vd.st = "unb" THEN {}
           ELSE {"error " \o ev.err.kind \o " without a limit on a model with verdict " \o vd.st}

\* The text door (entry text_clarabel): the solver sees the COMPILED model, whose variable ranges the
\* compiler may have tightened by bound inference (field cvars).  An inferred bound is implied by the
\* rows, so the compiled model can be degenerate where the user's model is not, and the solver then
\* gives (part of) a row's price to the bound.  Such an answer is the right one for the compiled
\* model and the wrong one for the user's: it is reported under its own class.
Compiled(ev) ==
   [ev EXCEPT !.vars = [i \in 1..Len(ev.vars) |->
        LET S == {j \in 1..Len(ev.cvars) : ev.cvars[j].name = ev.vars[i].name}
        IN  IF S = {} THEN ev.vars[i]
            ELSE LET c == ev.cvars[CHOOSE j \in S : TRUE] IN [ev.vars[i] EXCEPT !.lo = c.lo, !.hi = c.hi]]]
CompiledKnown(ev) == "cvars" \in DOMAIN ev /\ \A j \in 1..Len(ev.cvars) : (ev.cvars[j].lo.inf # 0 \/ ev.cvars[j].lo.d # 0) /\ (ev.cvars[j].hi.inf # 0 \/ ev.cvars[j].hi.d # 0)
ZeroRow(r) == \A i \in 1..Len(r.a) : r.a[i] = 0
DualClass(ev) ==
   LET pb == DualProblems(ev) IN
   IF pb = {} \/ ev.entry # "text_clarabel" THEN pb
   ELSE IF pb = {"named row without exactly one dual"} /\
           \A k \in 1..Len(ev.rows) : (FirstNamed(ev, k) /\ Cardinality(DualOf(ev, ev.rows[k].name)) # 1) => ZeroRow(ev.rows[k])
        THEN {"KNOWN-VACUOUS-ROW a named row without variables is dropped by the compiler and reports no shadow price"}
   ELSE IF CompiledKnown(ev) /\ (\E i \in 1..Len(ev.vars) : Compiled(ev).vars[i] # ev.vars[i])
           /\ DualProblems(Compiled(ev)) \subseteq {"named row without exactly one dual"}
        THEN {"KNOWN-INFERRED-BOUND the shadow prices are those of the compiled model, whose variable ranges were tightened by bound inference; for the user's model they differ from the sensitivity"}
   ELSE pb
Emit(p, ev, bad) == IF bad = {} THEN TRUE
                    ELSE PrintT(<<"REJECT", p, ev.id, CHOOSE b \in bad : TRUE, ToJson(bad)>>)
Check(ev) ==
   IF Has("C15") THEN
      Emit("C15", ev, LimitsProblems(ev)) /\
      PrintT(<<"STAT", ev.id, ev.out, IF ev.out = "solution" THEN ev.sol.status ELSE IF ev.out = "error" THEN ev.err.kind ELSE "">>)
   ELSE IF ev.out = "panic" THEN PrintT(<<"REJECT", "C04", ev.id, "panic", "">>) /\ PrintT(<<"REJECT", "C05", ev.id, "panic", "">>)
   ELSE IF ev.out = "timeout" THEN
        PrintT(<<"REJECT", "C05", ev.id, "no verdict: the call did not return within the watchdog limit", "">>)
   ELSE IF ~Accepts(ev) THEN
        (IF ev.out = "solution" THEN PrintT(<<"REJECT", "C05", ev.id, "solution from an entry point that does not accept the model", "">>)
                                     /\ (Has("C04") => Emit("C04", ev, PointProblems(ev)))
         ELSE PrintT(<<"STAT", ev.id, "notaccepted", "">>))
   ELSE /\ (Has("C04") /\ ev.out = "solution" => Emit("C04", ev, PointProblems(ev)))
        /\ (Has("C05") => Emit("C05", ev, VerdictProblems(ev)))
        /\ (Has("C20") /\ ev.out = "solution" => Emit("C20", ev, DualClass(ev)) /\ DualStat(ev))
        /\ PrintT(<<"STAT", ev.id, ev.out, IF Has("C05") \/ Has("C20") THEN Verdict(ev).st ELSE "">>)

Init == l = Start
Next == l <= Len(Rec) /\ Check(Rec[l]) /\ l' = l + 1
Spec == Init /\ [][Next]_vars
Accepted == IF TLCGet("stats").diameter = Len(Rec) - Start + 2
            THEN PrintT(<<"ACCEPTED", Len(Rec) - Start + 1>>)
            ELSE PrintT(<<"INCOMPLETE", TLCGet("stats").diameter>>) /\ FALSE
=============================================================================
