------------------------------ MODULE RenderTrace ------------------------------
(* Trace specification for the renderings of compiled output (C12).            *)
(* One event = one compiled model: its text rendering (modeltext), the text    *)
(* rendering of its linear model (lmtext), and what the whole front end        *)
(* (parser, type checker, transformer, linearizer) makes of each text.         *)
(* Accepted iff both texts are accepted and compile to a linear model with     *)
(* the same variables and domains, the same objective, offset and sense, and   *)
(* the same multiset of rows (coefficients, relation, right-hand side, name)   *)
(* as the original linear model -- numbers are compared by sign and bit        *)
(* pattern, i.e. exactly.  Differences of three degenerate shapes are reported  *)
(* under their own reason (see Reduced and DomTighter below)                    *)
(* pattern, i.e. exactly -- and the linear text is a fixed point: rendering    *)
(* the recompiled linear model gives the same text.                            *)
EXTENDS Integers, Sequences, FiniteSets, TLC, Json, IOUtils

Rec == ndJsonDeserialize(IOEnv.TRACE)
Start == atoi(IOEnv.START)
VARIABLE l
vars == <<l>>

NumEq(x, y) == (x.s = 0 /\ y.s = 0) \/ (x.s = y.s /\ x.m = y.m)
SeqEq(s, t) == Len(s) = Len(t) /\ \A i \in 1..Len(s) : NumEq(s[i], t[i])
VarEq(v, w) == v.name = w.name /\ v.kind = w.kind /\ NumEq(v.lo, w.lo) /\ NumEq(v.hi, w.hi)
RowEq(r, q) == r.cmp = q.cmp /\ r.name = q.name /\ NumEq(r.b, q.b) /\ SeqEq(r.a, q.a)
Count(rows, r) == Cardinality({i \in 1..Len(rows) : RowEq(rows[i], r)})
SameRows(x, y) == Len(x) = Len(y) /\ \A i \in 1..Len(x) : Count(x, x[i]) = Count(y, x[i])
\* order on numbers given as sign + bit pattern: for one sign the magnitude order is the
\* lexicographic order of the three bit chunks (IEEE-754)
MagLe(m, n) == m[1] < n[1] \/ (m[1] = n[1] /\ (m[2] < n[2] \/ (m[2] = n[2] /\ m[3] <= n[3])))
NumLe(x, y) == IF x.s # y.s THEN x.s < y.s
               ELSE IF x.s = 0 THEN TRUE ELSE IF x.s = 1 THEN MagLe(x.m, y.m) ELSE MagLe(y.m, x.m)
SameVarSet(a, b) == Len(a.vars) = Len(b.vars) /\ \A i \in 1..Len(a.vars) : a.vars[i].name = b.vars[i].name /\ a.vars[i].kind = b.vars[i].kind
DomEq(a, b) == \A i \in 1..Len(a.vars) : NumEq(a.vars[i].lo, b.vars[i].lo) /\ NumEq(a.vars[i].hi, b.vars[i].hi)
\* every range of b lies inside the corresponding range of a
DomTighter(a, b) == \A i \in 1..Len(a.vars) : NumLe(a.vars[i].lo, b.vars[i].lo) /\ NumLe(b.vars[i].hi, a.vars[i].hi)
\* differences other than the ranges
Diff(a, b) ==
   LET If(c, w) == IF c THEN {w} ELSE {} IN
   If(~SameVarSet(a, b), "variable set or kinds differ")
   \cup If(a.sense # b.sense, "sense differs")
   \* a satisfy model has no objective in its text
   \cup If(a.sense # "sat" /\ ~SeqEq(a.obj, b.obj), "objective differs")
   \cup If(a.sense # "sat" /\ ~NumEq(a.off, b.off), "offset differs")
   \cup If(~SameRows(a.rows, b.rows), "rows differ")

\* Two degenerate shapes cannot survive a text round trip: a variable whose coefficient is
\* zero in every row and in the objective is not mentioned by any rendered row, and a row
\* without variables (0 = 1.5) is a constant truth value.  Reduced(lm) removes such
\* variables and replaces constant rows by their truth value.
ZeroVar(lm, i) == (\A k \in 1..Len(lm.rows) : lm.rows[k].a[i].s = 0) /\ lm.obj[i].s = 0
Keep(lm) == SelectSeq([i \in 1..Len(lm.vars) |-> i], LAMBDA i : ~ZeroVar(lm, i))
Sel(s, idx) == [j \in 1..Len(idx) |-> s[idx[j]]]
ConstRow(r) == \A i \in 1..Len(r.a) : r.a[i].s = 0
Holds(r) == CASE r.cmp = "le" -> r.b.s >= 0 [] r.cmp = "ge" -> r.b.s <= 0 [] r.cmp = "eq" -> r.b.s = 0
              [] r.cmp = "lt" -> r.b.s > 0 [] r.cmp = "gt" -> r.b.s < 0
Truth(r) == [a |-> <<>>, cmp |-> "eq", name |-> r.name,
             b |-> (IF Holds(r) THEN [s |-> 0, m |-> <<0, 0, 0>>] ELSE [s |-> 1, m |-> <<261888, 0, 0>>])]
\* rows the compiler recognises as always true and drops when it sees them in a text: a
\* variable-free row that holds, and a row over one Boolean variable that holds for 0 and 1
NumCmp(c, x, y) == CASE c = "le" -> NumLe(x, y) [] c = "ge" -> NumLe(y, x) [] c = "eq" -> NumEq(x, y)
                     [] c = "lt" -> NumLe(x, y) /\ ~NumEq(x, y) [] c = "gt" -> NumLe(y, x) /\ ~NumEq(x, y)
Support(r) == {i \in 1..Len(r.a) : r.a[i].s # 0}
AlwaysTrue(lm, r) ==
   \/ (ConstRow(r) /\ Holds(r))
   \/ (Cardinality(Support(r)) = 1 /\ LET i == CHOOSE j \in Support(r) : TRUE IN
          lm.vars[i].kind = "bool" /\ Holds(r) /\ NumCmp(r.cmp, r.a[i], r.b))
DropTrue(lm) == [lm EXCEPT !.rows = SelectSeq(lm.rows, LAMBDA r : ~AlwaysTrue(lm, r))]
\* a comparison of ONE Boolean variable with a constant is re-read by the compiler as an
\* assertion about that variable: it becomes  p = 1,  p = 0  or the contradiction 0 = 1
OneM == <<261888, 0, 0>>
NumOne == [s |-> 1, m |-> OneM]
NumZero == [s |-> 0, m |-> <<0, 0, 0>>]
BoolRow(lm, r) == Cardinality(Support(r)) = 1 /\ lm.vars[CHOOSE j \in Support(r) : TRUE].kind = "bool"
CanonBool(lm, r) ==
   LET i == CHOOSE j \in Support(r) : TRUE
       t0 == Holds(r)
       t1 == NumCmp(r.cmp, r.a[i], r.b)
       unit == [j \in 1..Len(r.a) |-> IF j = i THEN NumOne ELSE NumZero]
   IN  IF t1 /\ ~t0 THEN [r EXCEPT !.a = unit, !.cmp = "eq", !.b = NumOne]
       ELSE IF t0 /\ ~t1 THEN [r EXCEPT !.a = unit, !.cmp = "eq", !.b = NumZero]
       ELSE [r EXCEPT !.a = [j \in 1..Len(r.a) |-> NumZero], !.cmp = "eq", !.b = NumOne]   \* never true
CanonRows(lm) == [lm EXCEPT !.rows = [k \in 1..Len(lm.rows) |-> IF BoolRow(lm, lm.rows[k]) THEN CanonBool(lm, lm.rows[k]) ELSE lm.rows[k]]]
Reduced(lm0) == LET lm == CanonRows(DropTrue(lm0))
                    k == Keep(lm) IN
   [lm EXCEPT !.vars = Sel(lm.vars, k), !.obj = Sel(lm.obj, k),
              !.rows = [i \in 1..Len(lm.rows) |-> IF ConstRow(lm.rows[i]) THEN Truth(lm.rows[i])
                                                  ELSE [lm.rows[i] EXCEPT !.a = Sel(lm.rows[i].a, k)]]]
\* classification of one round trip (what = which rendering, s = its recompilation)
\* a compiled variable name with an index fragment the grammar has no token for (x_-1 from x_{i - 1},
\* x_0.5, a string index with a blank or a dash, an empty string index): no spelling reads it back
UnreadableName(ev) == \E i \in 1..Len(ev.namefrags) : \E k \in 1..Len(ev.namefrags[i].cls) : ev.namefrags[i].cls[k] = "other"
Side(ev, what, s) ==
   IF s.out = "parse_error" /\ UnreadableName(ev)
   THEN {"KNOWN-NAME " \o what \o ": a variable name has an index fragment the grammar cannot read (negative or fractional number, string that is not a name)"}
   ELSE
   IF s.out = "parse_error" /\ what = "rendered linear model" /\ Len(ev.lm.rows) = 0
   THEN {"KNOWN-SHAPE rendered linear model: a model without rows renders to a text the grammar rejects"}
   ELSE IF s.out # "ok" THEN {what \o " is rejected: " \o s.out}
   ELSE LET a == ev.lm
            b == s.lm
            ra == Reduced(a)
            rb == Reduced(b)
        IN  IF Diff(ra, rb) # {} THEN {what \o ": " \o d : d \in Diff(ra, rb)}
            ELSE (IF Diff(a, b) # {} THEN {"KNOWN-SHAPE " \o what \o ": differs only by always-true rows, re-read comparisons of one Boolean variable, variables with all-zero coefficients or the constant of a variable-free row"} ELSE {})
                 \cup (IF DomEq(ra, rb) THEN {}
                       ELSE IF DomTighter(ra, rb) THEN {"KNOWN-SHAPE " \o what \o ": the recompiled variable ranges are tighter (bound inference is not idempotent on compiled output)"}
                       ELSE {what \o ": variable ranges differ and are not a tightening"})
Problems(ev) ==
   LET p == Side(ev, "rendered model", ev.from_model) \cup Side(ev, "rendered linear model", ev.from_lm) IN
   p \cup (IF p = {} /\ ev.from_lm.out = "ok" /\ ev.from_lm.text # ev.lmtext
           THEN {"second rendering of the linear model differs from the first"} ELSE {})

Check(ev) ==
   IF ev.out # "ok" THEN PrintT(<<"SKIP", ev.id, ev.out>>)
   ELSE LET pb == Problems(ev) IN
        IF pb = {} THEN PrintT(<<"STAT", ev.id, Len(ev.lm.vars), Len(ev.lm.rows)>>)
        ELSE PrintT(<<"REJECT", "C12", ev.id, CHOOSE x \in pb : TRUE, ToJson(pb)>>)

Init == l = Start
Next == l <= Len(Rec) /\ Check(Rec[l]) /\ l' = l + 1
Spec == Init /\ [][Next]_vars
Accepted == IF TLCGet("stats").diameter = Len(Rec) - Start + 2
            THEN PrintT(<<"ACCEPTED", Len(Rec) - Start + 1>>)
            ELSE PrintT(<<"INCOMPLETE", TLCGet("stats").diameter>>) /\ FALSE
=============================================================================
