-------------------------------- MODULE Mutate --------------------------------
(* Generator machine of mutation histories over the token list of a valid     *)
(* program (C18).  A behaviour picks one base program and applies up to       *)
(* MaxEdits edits; every state reached is an input for the real compiler:     *)
(*   Delete(i)  Duplicate(i)  Swap(i)  Replace(i, extreme token)              *)
(*   Wrap(i, d): d parentheses around token i     Truncate(i)                 *)
(* Used in TLC simulation mode (seeded); the base token lists are read from   *)
(* the file named by the environment variable BASE (one JSON array per line). *)
EXTENDS Integers, Sequences, FiniteSets, TLC, Json, IOUtils
CONSTANT MaxEdits

Base == ndJsonDeserialize(IOEnv.BASE)
Extremes == <<"9223372036854775807", "9223372036854775808", "18446744073709551615", "18446744073709551616",
              "99999999999999999999999999999999", "1.7976931348623157e308", "0.0000000000000000000000001", "1e400",
              "-0", "00", "2147483648", "-2147483649", "0..999999999", "0..=4294967295", "5..0", "-9223372036854775808",
              "Infinity", "MinusInfinity", "true", "\"str\"", "[]", "[[1],[2,3]]", "_", "x_{x_{x_1}}", "x_1_2_3_4_5_6_7_8_9",
              "for", "in", "as", "{", "}", "(", ")", ",", ":", "é", "∑", "\\", "$", "/*", "//">>
Depths == {1, 2, 5, 9}

VARIABLES toks, edits, hist
vars == <<toks, edits, hist>>
Init == \E b \in 1..Len(Base) : toks = Base[b] /\ edits = 0 /\ hist = <<"base", b>>
Can == edits < MaxEdits /\ Len(toks) >= 1
RECURSIVE Rep(_, _)
Rep(s, n) == IF n = 0 THEN "" ELSE s \o Rep(s, n - 1)
Delete == Can /\ \E i \in 1..Len(toks) : toks' = SubSeq(toks, 1, i - 1) \o SubSeq(toks, i + 1, Len(toks)) /\ hist' = <<"delete", i>>
Duplicate == Can /\ \E i \in 1..Len(toks) : toks' = SubSeq(toks, 1, i) \o SubSeq(toks, i, Len(toks)) /\ hist' = <<"duplicate", i>>
Swap == Can /\ Len(toks) >= 2 /\ \E i \in 1..(Len(toks) - 1) :
           toks' = [toks EXCEPT ![i] = toks[i + 1], ![i + 1] = toks[i]] /\ hist' = <<"swap", i>>
Replace == Can /\ \E i \in 1..Len(toks), x \in 1..Len(Extremes) : toks' = [toks EXCEPT ![i] = Extremes[x]] /\ hist' = <<"replace", i>>
Wrap == Can /\ \E i \in 1..Len(toks), d \in Depths :
           toks' = [toks EXCEPT ![i] = Rep("(", d) \o toks[i] \o Rep(")", d)] /\ hist' = <<"wrap", i>>
Truncate == Can /\ \E i \in 1..Len(toks) : toks' = SubSeq(toks, 1, i) /\ hist' = <<"truncate", i>>
Next == (Delete \/ Duplicate \/ Swap \/ Replace \/ Wrap \/ Truncate) /\ edits' = edits + 1
Spec == Init /\ [][Next]_vars
Emit == edits >= 1 => PrintT(<<"CASE", ToJson([tokens |-> toks, edits |-> edits, last |-> hist[1]])>>)
=============================================================================
