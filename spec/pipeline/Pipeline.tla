------------------------------- MODULE Pipeline -------------------------------
(* The compiler as a machine of public stages (C18):                          *)
(*                                                                             *)
(*   text --parse--> PreModel --type_check--> ok                               *)
(*     |  \--format--> text          \--transform--> Model --linearize-->      *)
(*     |                                  LinearModel --standardize--> std     *)
(*     |                                             \--solve--> verdict       *)
(*                                                                             *)
(* Every stage is an action with exactly two outcomes: `ok` (the next datum    *)
(* exists) or `err` (a structured error, which must be renderable against the  *)
(* source).  panic / abort / timeout are not transitions of this machine.      *)
(* The trace specification below follows the recorded stage outcomes of one    *)
(* run of the real code per event, one stage per step:                         *)
(*   - only ok / err occur, and no stage takes longer than Limit ms            *)
(*   - a stage runs only if the stages it depends on were ok                   *)
(*   - format succeeds exactly when parse succeeds                             *)
EXTENDS Integers, Sequences, FiniteSets, TLC, Json, IOUtils

Rec == ndJsonDeserialize(IOEnv.TRACE)
Start == atoi(IOEnv.START)
Limit == 4000

\* which earlier stages must have been ok
Needs == [parse |-> {}, format |-> {}, type_check |-> {"parse"}, transform |-> {"parse"},
          linearize |-> {"parse", "transform"}, standardize |-> {"parse", "transform", "linearize"},
          solve |-> {"parse", "transform", "linearize"}]
Order == <<"parse", "format", "type_check", "transform", "linearize", "standardize", "solve">>

VARIABLES l, k, okset, bad
vars == <<l, k, okset, bad>>
Ev == Rec[l]
St == Ev.stages[k]

StageStep ==
   /\ l <= Len(Rec) /\ k <= Len(Ev.stages)
   /\ LET s == St
          pb == (IF s.res \notin {"ok", "err"} THEN {s.stage \o " " \o s.res} ELSE {})
                \cup (IF s.ms > Limit THEN {s.stage \o " took longer than the limit"} ELSE {})
                \cup (IF s.render # "ok" THEN {s.stage \o ": the error cannot be rendered against the source"} ELSE {})
                \cup (IF s.stage \in DOMAIN Needs /\ ~(Needs[s.stage] \subseteq okset) THEN {s.stage \o " ran although an earlier stage failed"} ELSE {})
                \cup (IF s.stage = "format" /\ s.res \in {"ok", "err"} /\ (s.res = "ok") # ("parse" \in okset)
                      THEN {"format and parse disagree about whether the text is well formed"} ELSE {})
      IN  /\ bad' = bad \cup pb
          /\ okset' = (IF s.res = "ok" THEN okset \cup {s.stage} ELSE okset)
   /\ k' = k + 1 /\ l' = l
\* the run must not stop early: after the last recorded stage, every stage whose
\* prerequisites were ok must have been recorded
Missing == {Order[i] : i \in {j \in 1..Len(Order) : Needs[Order[j]] \subseteq okset
                                 /\ ~\E m \in 1..Len(Ev.stages) : Ev.stages[m].stage = Order[j]}}
NextEvent ==
   /\ l <= Len(Rec) /\ k > Len(Ev.stages)
   /\ LET pb == bad \cup (IF Missing # {} THEN {"stage not reached: " \o (CHOOSE x \in Missing : TRUE)} ELSE {}) IN
      IF pb = {} THEN PrintT(<<"STAT", Ev.id, Len(Ev.stages), Cardinality(okset)>>)
      ELSE PrintT(<<"REJECT", "C18", Ev.id, CHOOSE x \in pb : TRUE, ToJson(pb)>>)
   /\ (l = Len(Rec) => PrintT(<<"ACCEPTED", Len(Rec) - Start + 1>>))
   /\ l' = l + 1 /\ k' = 1 /\ okset' = {} /\ bad' = {}
Init == l = Start /\ k = 1 /\ okset = {} /\ bad = {}
Next == StageStep \/ NextEvent
Spec == Init /\ [][Next]_vars
=============================================================================
