SPECIFICATION Spec
CONSTANT MaxEdits = 3
INVARIANT Emit
CHECK_DEADLOCK FALSE
