------------------------------- MODULE IndexGen -------------------------------
(* Generator machine for array accesses (C18): constant arrays of one, two and   *)
(* three dimensions, read with every index tuple over {-1, 0, 1, 2, 5} (in and    *)
(* out of range in every position), directly, through a loop variable that runs   *)
(* past the end, and through len().  Every terminal state is one source text; the *)
(* pipeline must answer each with a result or an error (OutOfBounds), never with  *)
(* a panic.                                                                       *)
EXTENDS Integers, Sequences, FiniteSets, TLC, Json
Idx == {-1, 0, 1, 2, 5}
Data == "where\n    let A = [1, 2]\n    let C = [[1, 2], [3, 4]]\n    let T = [[[1], [2]], [[3], [4]]]\n    let R = [[1, 2], [3]]\n"
IdxText(i) == IF i < 0 THEN "0 - " \o ToString(-i) ELSE ToString(i)
Access(name, ixs) == name \o (IF Len(ixs) >= 1 THEN "[" \o IdxText(ixs[1]) \o "]" ELSE "") \o (IF Len(ixs) >= 2 THEN "[" \o IdxText(ixs[2]) \o "]" ELSE "")
                          \o (IF Len(ixs) >= 3 THEN "[" \o IdxText(ixs[3]) \o "]" ELSE "")
VARIABLES arr, ixs, form, phase
vars == <<arr, ixs, form, phase>>
Dims(a) == CASE a = "A" -> 1 [] a = "C" -> 2 [] a = "R" -> 2 [] a = "T" -> 3
Init == arr = "A" /\ ixs = <<>> /\ form = "direct" /\ phase = "arr"
PickArr == phase = "arr" /\ (\E a \in {"A", "C", "R", "T"} : arr' = a) /\ phase' = "ix" /\ UNCHANGED <<ixs, form>>
PickIx == phase = "ix" /\ Len(ixs) < Dims(arr) /\ (\E i \in Idx : ixs' = Append(ixs, i)) /\ UNCHANGED <<arr, form, phase>>
PickForm == phase = "ix" /\ Len(ixs) = Dims(arr) /\ (\E f \in {"direct", "loop", "coef", "len"} : form' = f) /\ phase' = "done" /\ UNCHANGED <<arr, ixs>>
Next == PickArr \/ PickIx \/ PickForm
Spec == Init /\ [][Next]_vars
\* "loop": the first index is a loop variable running from 0 to the chosen index (exclusive end + 1)
LoopAccess == arr \o "[i]" \o (IF Len(ixs) >= 2 THEN "[" \o IdxText(ixs[2]) \o "]" ELSE "") \o (IF Len(ixs) >= 3 THEN "[" \o IdxText(ixs[3]) \o "]" ELSE "")
Text == CASE form = "direct" -> "min " \o Access(arr, ixs) \o "\ns.t.\n    1 >= 1\n" \o Data
          [] form = "coef" -> "min x\ns.t.\n    " \o Access(arr, ixs) \o " * x >= 1\n" \o Data \o "define\n    x as Real(0, 9)"
          [] form = "loop" -> "min sum(i in 0..(" \o IdxText(ixs[1]) \o " + 1)) { " \o LoopAccess \o " }\ns.t.\n    1 >= 1\n" \o Data
          [] form = "len" -> "min len(" \o Access(arr, SubSeq(ixs, 1, Len(ixs) - 1)) \o ") + " \o IdxText(ixs[Len(ixs)]) \o "\ns.t.\n    1 >= 1\n" \o Data
Emit == phase = "done" => PrintT(<<"CASE", ToJson([text |-> Text])>>)
=============================================================================
