---------------------------- MODULE SimplexTrace ----------------------------
(* Trace specification binding the real Tableau (hook H3 + public API) to   *)
(* the machine in Simplex.tla.  Events of one run:                          *)
(*   begin   start state (integers over a common denominator D)             *)
(*   pivot   the implementation's choice (entering h, leaving row t) and    *)
(*           its float tableau after the pivot, scaled by S                 *)
(*   end     finished / unbounded / limit / other                           *)
(* A pivot event is accepted iff it is a step of Simplex!Pivot; the exact   *)
(* successor state is then compared with the observed one (|diff| <= Tol/S).*)
(* If the implementation leaves the specification the run is marked lost    *)
(* and the remaining events of that run are skipped.                        *)
EXTENDS Simplex, Json, IOUtils, TLC

Rec == ndJsonDeserialize(IOEnv.TRACE)
Start == atoi(IOEnv.START)
S == 10000
Tol == 3

VARIABLES l, lost, pivots
tvars == <<A, b, c, z, D, basis, A0, b0, c0, z0, D0, basis0, status, iter, l, lost, pivots>>

Rej(ev, what) == PrintT(<<"REJECT", "C14", ev.run, what, l>>)
Close(o, s, d) == LET x == o * d - s * S IN x <= Tol * d /\ -x <= Tol * d

Matches(ev) ==
   /\ \A i \in Rows, j \in Cols : Close(ev.obs.a[i][j], A'[i][j], D')
   /\ \A i \in Rows : Close(ev.obs.b[i], b'[i], D')
   /\ \A j \in Cols : Close(ev.obs.c[j], c'[j], D')
   /\ Close(ev.obs.z, z', D')
   /\ \A k \in Rows : ev.obs.basis[k] = basis'[k]

Begin(ev) ==
   /\ A' = ev.A /\ b' = ev.b /\ c' = ev.c /\ z' = ev.z /\ D' = ev.D /\ basis' = ev.basis
   /\ A0' = ev.A /\ b0' = ev.b /\ c0' = ev.c /\ z0' = ev.z /\ D0' = ev.D /\ basis0' = ev.basis
   /\ status' = "running" /\ iter' = 0 /\ lost' = FALSE /\ pivots' = 0

Stutter == UNCHANGED <<A, b, c, z, D, basis, A0, b0, c0, z0, D0, basis0, status, iter, pivots>>

PivotEv(ev) ==
   IF lost THEN Stutter /\ UNCHANGED lost
   ELSE IF ~(status = "running" /\ Eligible(ev.h) /\ MinRatioRow(ev.h, ev.t))
        THEN Rej(ev, IF status # "running" THEN "pivot after termination"
                     ELSE IF ~Eligible(ev.h) THEN "entering column not eligible"
                     ELSE "leaving row does not attain the minimum ratio over positive entries") /\ lost' = TRUE /\ Stutter
        ELSE /\ DoPivot(ev.h, ev.t) /\ pivots' = pivots + 1
             /\ IF Matches(ev) THEN lost' = FALSE
                ELSE Rej(ev, "tableau after pivot differs from the exact pivot") /\ lost' = TRUE

EndEv(ev) ==
   /\ Stutter /\ UNCHANGED lost
   /\ IF lost THEN TRUE
      ELSE CASE ev.outcome = "finished" ->
                  IF ~Optimal THEN Rej(ev, "finished with a negative reduced cost")
                  ELSE IF ~(\A j \in Cols : Close(ev.x[j], (IF InBasis(j) THEN b[CHOOSE k \in Rows : basis[k] = j] ELSE 0), D))
                       THEN Rej(ev, "reported solution is not the basic solution")
                  ELSE PrintT(<<"RUN", ev.run, "finished", pivots>>)
             [] ev.outcome = "unbounded" ->
                  IF ~(\E h \in Cols : UnboundedAt(h)) THEN Rej(ev, "unbounded reported without an improving ray")
                  ELSE PrintT(<<"RUN", ev.run, "unbounded", pivots>>)
             [] ev.outcome = "inner" ->
                  IF ~Optimal THEN Rej(ev, "inner (phase 1) solve returned without reaching an optimal tableau")
                  ELSE IF ev.mode = "phase1" /\ z # 0 THEN Rej(ev, "phase 1 ended with a positive artificial sum but a tableau was built")
                  ELSE PrintT(<<"RUN", ev.run, "inner", pivots>>)
             [] ev.outcome = "infeasible" ->
                  IF ~Optimal THEN Rej(ev, "infeasible reported before phase 1 reached its optimum")
                  ELSE IF z = 0 THEN Rej(ev, "infeasible reported although the phase-1 optimum is 0")
                  ELSE PrintT(<<"RUN", ev.run, "infeasible", pivots>>)
             [] ev.outcome = "limit" ->
                  IF ev.mode = "manual" THEN PrintT(<<"RUN", ev.run, "cut", pivots>>)
                  ELSE Rej(ev, "iteration limit reached on a small problem")
             [] OTHER -> Rej(ev, "solver error " \o ev.outcome)

\* canon: the canonical tableau built by into_tableau (two-phase start) against the
\* standard form it came from: unit basis, feasibility, every standard-form row lies
\* in the row space of the tableau (no constraint lost), reduced costs and value are
\* those of the standard-form objective
CanonProblems(ev) ==
   LET m == Len(ev.A)
       n == Len(ev.c)
       st == ev.std
       f(F(_)) == SumK(F, 1, m)
   IN  (IF \E k \in 1..m : ev.A[k][ev.basis[k]] # ev.D \/ ev.c[ev.basis[k]] # 0 \/ \E i \in (1..m) \ {k} : ev.A[i][ev.basis[k]] # 0
        THEN {"basis columns are not unit columns"} ELSE {})
       \cup (IF \E k \in 1..m : ev.b[k] < 0 THEN {"negative right-hand side"} ELSE {})
       \cup (IF Len(st.c) # n THEN {"column count differs from the standard form"} ELSE
             (IF \E r \in 1..Len(st.A) :
                   \/ \E j \in 1..n : LET F(k) == st.A[r][ev.basis[k]] * ev.A[k][j] IN st.A[r][j] * ev.D # f(F)
                   \/ LET F(k) == st.A[r][ev.basis[k]] * ev.b[k] IN st.b[r] * ev.D # f(F)
              THEN {"a standard-form row is not implied by the tableau rows (constraint lost)"} ELSE {})
             \cup (IF \E j \in 1..n : LET F(k) == st.c[ev.basis[k]] * ev.A[k][j] IN ev.c[j] * st.D # st.c[j] * ev.D - f(F)
                   THEN {"reduced costs are not those of the standard-form objective"} ELSE {})
             \cup (IF LET F(k) == st.c[ev.basis[k]] * ev.b[k] IN ev.z * st.D # -f(F)
                   THEN {"tableau value is not the objective of the basic solution"} ELSE {}))
CanonEv(ev) == /\ Stutter /\ UNCHANGED lost
               /\ LET pb == CanonProblems(ev) IN
                  IF pb = {} THEN PrintT(<<"RUN", ev.run, "canon", 0>>) ELSE Rej(ev, CHOOSE x \in pb : TRUE)

Step(ev) == CASE ev.kind = "begin" -> Begin(ev)
              [] ev.kind = "canon" -> CanonEv(ev)
              [] ev.kind = "pivot" -> PivotEv(ev)
              [] ev.kind = "end" -> EndEv(ev)

Init == /\ l = Start /\ lost = TRUE /\ pivots = 0 /\ status = "none" /\ iter = 0
        /\ A = <<>> /\ b = <<>> /\ c = <<>> /\ z = 0 /\ D = 1 /\ basis = <<>>
        /\ A0 = <<>> /\ b0 = <<>> /\ c0 = <<>> /\ z0 = 0 /\ D0 = 1 /\ basis0 = <<>>
TNext == l <= Len(Rec) /\ Step(Rec[l]) /\ l' = l + 1
Spec == Init /\ [][TNext]_tvars
\* the invariants of Simplex.tla, evaluated on every state the real runs induce
TraceInv == (status = "running" /\ ~lost) => Inv
Accepted == IF TLCGet("stats").diameter = Len(Rec) - Start + 2
            THEN PrintT(<<"ACCEPTED", Len(Rec) - Start + 1>>)
            ELSE PrintT(<<"INCOMPLETE", TLCGet("stats").diameter>>) /\ FALSE
=============================================================================
