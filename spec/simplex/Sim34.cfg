SPECIFICATION Spec
CONSTANTS M = 3
 NB = 4
 Mag = 3
 BMax = 3
INVARIANT Emit
CHECK_DEADLOCK FALSE
