------------------------------ MODULE MCSimplex ------------------------------
(* Model-checking harness for Simplex.tla: all 2 x 4 start tableaux with a  *)
(* slack basis, non-basic entries and costs in -Mag..Mag, right-hand sides  *)
(* in 0..BMax, and EVERY admissible pivot choice.  Checked: Inv (unit       *)
(* basis, feasibility, equivalence with the initial system, objective       *)
(* bookkeeping, optimality at Finish) and the action property Monotone.     *)
(* With Bland = TRUE the pivot choice is restricted to Bland's rule and     *)
(* the invariant NoCycle (at most C(4,2) = 6 pivots) shows termination.     *)
EXTENDS Simplex, TLC
CONSTANTS Mag, BMax, Bland

Col == [1..3 -> (-Mag)..Mag]
MCInit == \E c1, c2 \in Col, bb \in [1..2 -> 0..BMax] :
   /\ A = [i \in 1..2 |-> <<c1[i], c2[i], IF i = 1 THEN 1 ELSE 0, IF i = 2 THEN 1 ELSE 0>>]
   /\ b = bb /\ c = <<c1[3], c2[3], 0, 0>> /\ z = 0 /\ D = 1 /\ basis = <<3, 4>>
   /\ A0 = A /\ b0 = b /\ c0 = c /\ z0 = 0 /\ D0 = 1 /\ basis0 = <<3, 4>>
   /\ status = "running" /\ iter = 0

BlandH(h) == Eligible(h) /\ \A g \in Cols : Eligible(g) => h <= g
BlandT(h, t) == MinRatioRow(h, t) /\ \A s \in Rows : MinRatioRow(h, s) => basis[t] <= basis[s]
MCNext == IF Bland
          THEN (\E h \in Cols, t \in Rows : BlandH(h) /\ BlandT(h, t) /\ Pivot(h, t)) \/ Finish \/ ReportUnbounded
          ELSE Next
MCSpec == MCInit /\ [][MCNext]_svars
NoCycle == Bland => iter <= 6
\* a running state always has a successor: optimal, unbounded, or an admissible pivot
Progress == status = "running" =>
               Optimal \/ (\E h \in Cols : UnboundedAt(h)) \/ (\E h \in Cols, t \in Rows : Eligible(h) /\ MinRatioRow(h, t))
=============================================================================
