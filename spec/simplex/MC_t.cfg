SPECIFICATION MCSpec
CONSTANTS Mag = 2
 BMax = 2
 Bland = FALSE
INVARIANT Inv
INVARIANT NoCycle
INVARIANT Progress
INVARIANT TypeOK
PROPERTY Monotone
CHECK_DEADLOCK FALSE
