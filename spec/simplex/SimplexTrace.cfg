SPECIFICATION Spec
INVARIANT TraceInv
POSTCONDITION Accepted
CHECK_DEADLOCK FALSE
