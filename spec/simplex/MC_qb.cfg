SPECIFICATION MCSpec
CONSTANTS Mag = 1
 BMax = 1
 Bland = TRUE
INVARIANT Inv
INVARIANT NoCycle
INVARIANT Progress
INVARIANT TypeOK
PROPERTY Monotone
CHECK_DEADLOCK FALSE
