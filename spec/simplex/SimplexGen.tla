----------------------------- MODULE SimplexGen -----------------------------
(* Generator machine for canonical start tableaux (C14): M rows, a slack    *)
(* basis in the last M columns, NB non-basic columns chosen one at a time   *)
(* from all integer columns with entries in -Mag..Mag, then a right-hand side  *)
(* in 0..BMax (zero entries give degenerate vertices and ratio ties).       *)
EXTENDS Integers, Sequences, FiniteSets, TLC, Json
CONSTANTS M, NB, Mag, BMax

Vals == (-Mag)..Mag
ColSet == [1..(M + 1) -> Vals]          \* entries 1..M: column of A, entry M+1: cost
BSet == [1..M -> 0..BMax]

VARIABLES phase, cols, bvec
vars == <<phase, cols, bvec>>
Init == phase = "cols" /\ cols = <<>> /\ bvec = <<>>
AddCol == phase = "cols" /\ Len(cols) < NB /\ (\E col \in ColSet : cols' = Append(cols, col))
          /\ UNCHANGED <<phase, bvec>>
ChooseB == phase = "cols" /\ Len(cols) = NB /\ (\E bb \in BSet : bvec' = bb)
           /\ phase' = "done" /\ UNCHANGED cols
Next == AddCol \/ ChooseB
Spec == Init /\ [][Next]_vars

N == NB + M
Case == [a |-> [i \in 1..M |-> [j \in 1..N |-> IF j <= NB THEN cols[j][i] ELSE IF j - NB = i THEN 1 ELSE 0]],
         b |-> bvec,
         c |-> [j \in 1..N |-> IF j <= NB THEN cols[j][M + 1] ELSE 0],
         basis |-> [i \in 1..M |-> NB + i], z |-> 0, den |-> 1]
\* a tableau without a negative cost is already optimal: still a (short) behaviour
Emit == phase = "done" => PrintT(<<"CASE", ToJson(Case)>>)
=============================================================================
