SPECIFICATION Spec
CONSTANTS M = 2
 NB = 2
 Mag = 2
 BMax = 2
INVARIANT Emit
CHECK_DEADLOCK FALSE
