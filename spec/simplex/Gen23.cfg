SPECIFICATION Spec
CONSTANTS M = 2
 NB = 3
 Mag = 1
 BMax = 1
INVARIANT Emit
CHECK_DEADLOCK FALSE
