------------------------------- MODULE Simplex -------------------------------
(* The tableau simplex as a state machine over exact arithmetic.            *)
(* State: integer tableau A, b, c, z with one common denominator D (real    *)
(* entry = integer / D), the basis (row k -> column basis[k]), and the      *)
(* initial data A0, b0, c0, z0, D0, basis0 kept for the equivalence         *)
(* invariants.  One action per pivot: any entering column with negative     *)
(* reduced cost and any row attaining the minimum ratio over the positive   *)
(* entries of that column (the implementation's Dantzig / Bland-after-stall *)
(* rule and its tie-break are one resolution of this nondeterminism).       *)
(* Pivoting keeps one common denominator and divides by the common gcd,     *)
(* so all arithmetic is exact integer arithmetic.                           *)
EXTENDS Integers, Sequences, FiniteSets, Rat

VARIABLES A, b, c, z, D, basis, A0, b0, c0, z0, D0, basis0, status, iter
svars == <<A, b, c, z, D, basis, A0, b0, c0, z0, D0, basis0, status, iter>>

M == Len(A)
NCols == Len(c)
Rows == 1..M
Cols == 1..NCols
InBasis(j) == \E k \in Rows : basis[k] = j

Eligible(h) == h \in Cols /\ c[h] < 0 /\ ~InBasis(h)
MinRatioRow(h, t) == /\ t \in Rows /\ A[t][h] > 0
                     /\ \A i \in Rows : A[i][h] > 0 => b[t] * A[i][h] <= b[i] * A[t][h]
Optimal == \A j \in Cols : c[j] >= 0
UnboundedAt(h) == Eligible(h) /\ \A i \in Rows : A[i][h] <= 0

\* The new state after pivoting on (t, h), p = A[t][h] > 0.  Over the common
\* denominator D * p the numerators are  row t: A[t][j] * D,  other rows:
\* A[i][j] * p - A[i][h] * A[t][j]  (likewise b, c, z); everything is then divided
\* by the gcd of all numerators and the denominator, so no division is inexact.
RawA(t, h) == [i \in Rows |-> [j \in Cols |->
                 IF i = t THEN A[t][j] * D ELSE A[i][j] * A[t][h] - A[i][h] * A[t][j]]]
Rawb(t, h) == [i \in Rows |-> IF i = t THEN b[t] * D ELSE b[i] * A[t][h] - A[i][h] * b[t]]
Rawc(t, h) == [j \in Cols |-> c[j] * A[t][h] - c[h] * A[t][j]]
Rawz(t, h) == z * A[t][h] - c[h] * b[t]
RECURSIVE GcdSeq(_, _, _)
GcdSeq(s, i, acc) == IF i > Len(s) THEN acc ELSE GcdSeq(s, i + 1, Gcd(acc, AbsI(s[i])))
RECURSIVE GcdMat(_, _, _)
GcdMat(m, i, acc) == IF i > Len(m) THEN acc ELSE GcdMat(m, i + 1, GcdSeq(m[i], 1, acc))
CommonG(t, h) == GcdMat(RawA(t, h), 1, GcdSeq(Rawb(t, h), 1, GcdSeq(Rawc(t, h), 1,
                     Gcd(AbsI(Rawz(t, h)), D * A[t][h]))))

DoPivot(h, t) ==
   LET g == CommonG(t, h) IN
   /\ A' = [i \in Rows |-> [j \in Cols |-> RawA(t, h)[i][j] \div g]]
   /\ b' = [i \in Rows |-> Rawb(t, h)[i] \div g]
   /\ c' = [j \in Cols |-> Rawc(t, h)[j] \div g]
   /\ z' = Rawz(t, h) \div g
   /\ D' = (D * A[t][h]) \div g
   /\ basis' = [basis EXCEPT ![t] = h]
   /\ iter' = iter + 1
   /\ UNCHANGED <<A0, b0, c0, z0, D0, basis0, status>>

Pivot(h, t) == status = "running" /\ Eligible(h) /\ MinRatioRow(h, t) /\ DoPivot(h, t)
Finish == status = "running" /\ Optimal /\ status' = "finished"
          /\ UNCHANGED <<A, b, c, z, D, basis, A0, b0, c0, z0, D0, basis0, iter>>
ReportUnbounded == status = "running" /\ (\E h \in Cols : UnboundedAt(h)) /\ status' = "unbounded"
                   /\ UNCHANGED <<A, b, c, z, D, basis, A0, b0, c0, z0, D0, basis0, iter>>
Next == (\E h \in Cols, t \in Rows : Pivot(h, t)) \/ Finish \/ ReportUnbounded

---------------------------------------------------------------------------
(* invariants: the content of property C14 *)
UnitBasis == \A k \in Rows : /\ A[k][basis[k]] = D /\ c[basis[k]] = 0
                             /\ \A i \in Rows \ {k} : A[i][basis[k]] = 0
Feas == \A i \in Rows : b[i] >= 0            \* D > 0 always
PosD == D > 0
\* the rows are T * (initial rows) with T = current columns of the initial basis
RECURSIVE SumK(_, _, _)
SumK(f(_), k, n) == IF k > n THEN 0 ELSE f(k) + SumK(f, k + 1, n)
Equivalent ==
   /\ \A i \in Rows, j \in Cols :
        LET f(k) == A[i][basis0[k]] * A0[k][j] IN SumK(f, 1, M) = A[i][j] * D0
   /\ \A i \in Rows : LET f(k) == A[i][basis0[k]] * b0[k] IN SumK(f, 1, M) = b[i] * D0
\* the basic solution (x[basis[k]] = b[k] / D, others 0) solves the initial system
OrigSat == \A i \in Rows : LET f(k) == A0[i][basis[k]] * b[k] IN SumK(f, 1, M) = b0[i] * D
\* z tracks the implementation's current_value = -(objective of the basic solution):
\* z/D = z0/D0 - sum over basis of (c0/D0) x, with x[basis[k]] = b[k]/D
ObjConsistent == LET f(k) == c0[basis[k]] * b[k] IN z * D0 = z0 * D - SumK(f, 1, M)
\* current_value never decreases <=> the objective never gets worse
Monotone == [][z' * D >= z * D']_svars
\* optimality and unboundedness certificates at the terminal states
FinishedOptimal == status = "finished" => Optimal
TypeOK == status \in {"running", "finished", "unbounded"}
Inv == PosD /\ UnitBasis /\ Feas /\ Equivalent /\ OrigSat /\ ObjConsistent /\ FinishedOptimal
=============================================================================
