SPECIFICATION Spec
CONSTANT Family = "d2num"
INVARIANT Emit
CHECK_DEADLOCK FALSE
