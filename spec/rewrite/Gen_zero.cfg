SPECIFICATION Spec
CONSTANT Family = "zero"
INVARIANT Emit
CHECK_DEADLOCK FALSE
