SPECIFICATION Spec
CONSTANT Family = "assoc"
INVARIANT Emit
CHECK_DEADLOCK FALSE
