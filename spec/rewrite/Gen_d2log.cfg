SPECIFICATION Spec
CONSTANT Family = "d2log"
INVARIANT Emit
CHECK_DEADLOCK FALSE
