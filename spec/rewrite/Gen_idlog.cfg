SPECIFICATION Spec
CONSTANT Family = "idlog"
INVARIANT Emit
CHECK_DEADLOCK FALSE
