SPECIFICATION Spec
CONSTANT Family = "d1"
INVARIANT Emit
CHECK_DEADLOCK FALSE
