----------------------------- MODULE RewriteTrace -----------------------------
(* Trace specification for the rewrites Exp::simplify and Exp::flatten (C10). *)
(* One event = one generated tree and what the real rewrites returned for it: *)
(*   s = simplify, f = flatten, fs = simplify(flatten), sf = flatten(simplify)*)
(*   ss = simplify(simplify).                                                 *)
(* Accepted iff, at every assignment (numeric variables over NVals, Boolean   *)
(* variables over {0,1}) at which the original is defined, every rewritten    *)
(* tree is defined and has the same value; ss = s (idempotence); and a        *)
(* division whose denominator is zero or contains a variable is still         *)
(* present after the rewrite.                                                 *)
EXTENDS Sem, Json, IOUtils, TLC

Rec == ndJsonDeserialize(IOEnv.TRACE)
Start == atoi(IOEnv.START)
VARIABLE l
vars == <<l>>
NVals == {R(-2), R(-1), R(0), R(1), R(2), <<1, 2>>}
BVals == {R(0), R(1)}
\* a variable that is the direct operand of a logic operator is a Boolean one (the simplifier lets it
\* stand for `x or false`, and the compiler refuses a logic operand variable that is not declared Boolean)
LogicOps == {"and", "or", "not", "u_not", "xor", "implies", "iff", "b_and", "b_or", "b_xor", "b_implies", "b_iff"}
RECURSIVE LogicVars(_)
KidsOf(e) == IF e.op \in {"num", "var"} THEN {}
             ELSE IF "args" \in DOMAIN e THEN {e.args[i] : i \in 1..Len(e.args)}
             ELSE IF "b" \in DOMAIN e THEN {e.a, e.b} ELSE {e.a}
LogicVars(e) == (IF e.op \in LogicOps THEN {k.name : k \in {k \in KidsOf(e) : k.op = "var"}} ELSE {})
                \cup UNION {LogicVars(k) : k \in KidsOf(e)}
ValsOf(nm, t) == IF nm \in {"p", "q"} \cup LogicVars(t) THEN BVals ELSE NVals
Envs(t) == LET vs == VarsOf(t) IN {e \in [vs -> NVals \cup BVals] : \A nm \in vs : e[nm] \in ValsOf(nm, t)}

Usable(t) == t.op \notin {"panic", "unverifiable"}
\* denominators that must stay visible: constant zero, or containing a variable
RECURSIVE BadDivs(_)
RECURSIVE BadDivsSeq(_, _)
BadDivsSeq(args, i) == IF i > Len(args) THEN 0 ELSE BadDivs(args[i]) + BadDivsSeq(args, i + 1)
\* (semantically: a denominator that is zero or undefined at some assignment, or
\* whose value depends on the assignment; `p or 2` is the constant 1)
IsBadDen(d) == LET vals == {Eval(d, env) : env \in Envs(d)} IN
               Cardinality(vals) > 1 \/ \E v \in vals : ~IsDef(v) \/ RZero(v)
BadDivs(e) ==
   CASE e.op \in {"num", "var"} -> 0
     [] e.op \in {"neg", "not", "u_not", "abs"} -> BadDivs(e.a)
     [] e.op \in {"min", "max", "and", "or"} -> BadDivsSeq(e.args, 1)
     [] e.op = "div" -> (IF IsBadDen(e.b) THEN 1 ELSE 0) + BadDivs(e.a) + BadDivs(e.b)
     [] OTHER -> BadDivs(e.a) + BadDivs(e.b)

Differs(ev, r) == {env \in Envs(ev.tree) :
                     LET v == Eval(ev.tree, env) IN IsDef(v) /\ Eval(r, env) # v}
Problems(ev) ==
   LET If(c, w) == IF c THEN {w} ELSE {} IN
   UNION {If(r[2].op = "panic", r[1] \o " panicked")
          \cup If(Usable(r[2]) /\ Differs(ev, r[2]) # {}, r[1] \o " changes the value")
          \cup If(Usable(r[2]) /\ BadDivs(ev.tree) > 0 /\ BadDivs(r[2]) = 0, r[1] \o " rewrote away a zero or variable denominator")
          : r \in {<<"simplify", ev.s>>, <<"flatten", ev.f>>, <<"simplify.flatten", ev.fs>>, <<"flatten.simplify", ev.sf>>}}
   \cup If(Usable(ev.s) /\ Usable(ev.ss) /\ ev.s # ev.ss, "simplify is not idempotent")

Check(ev) ==
   LET pb == Problems(ev) IN
   IF pb = {} THEN PrintT(<<"STAT", ev.id, Cardinality(Envs(ev.tree)),
                            Cardinality({env \in Envs(ev.tree) : IsDef(Eval(ev.tree, env))}), IF ev.s = ev.tree THEN 0 ELSE 1>>)
   ELSE PrintT(<<"REJECT", "C10", ev.id, CHOOSE x \in pb : TRUE, ev.text, ev.stext>>)

Init == l = Start
Next == l <= Len(Rec) /\ Check(Rec[l]) /\ l' = l + 1
Spec == Init /\ [][Next]_vars
Accepted == IF TLCGet("stats").diameter = Len(Rec) - Start + 2
            THEN PrintT(<<"ACCEPTED", Len(Rec) - Start + 1>>)
            ELSE PrintT(<<"INCOMPLETE", TLCGet("stats").diameter>>) /\ FALSE
=============================================================================
