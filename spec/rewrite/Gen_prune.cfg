SPECIFICATION Spec
CONSTANT Family = "prune"
INVARIANT Emit
CHECK_DEADLOCK FALSE
