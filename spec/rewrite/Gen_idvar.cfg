SPECIFICATION Spec
CONSTANT Family = "idvar"
INVARIANT Emit
CHECK_DEADLOCK FALSE
