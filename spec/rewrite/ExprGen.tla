------------------------------- MODULE ExprGen -------------------------------
(* Generator machine for expression trees (C10): a stack machine that pushes *)
(* leaves and applies operators, bounded by Depth.  Numeric positions may    *)
(* hold any tree; logic operand positions hold logic-typed trees: Boolean    *)
(* variables p, q, constants (including non-0/1 truthy ones) and logic       *)
(* expressions.  Constants include 0, -0, 1, 2, -1 and 1/2.                  *)
(* Family "d1": all trees of depth <= 1; "d2": an operator over one depth-1  *)
(* tree and one leaf (both orders), unary over depth-1, n-ary over three.    *)
EXTENDS Integers, Sequences, FiniteSets, TLC, Json
CONSTANT Family

Num(n, d) == [op |-> "num", n |-> n, d |-> d]
V(s) == [op |-> "var", name |-> s]
U(o, a) == [op |-> o, a |-> a]
B(o, a, b) == [op |-> o, a |-> a, b |-> b]
N1(o, a) == [op |-> o, args |-> <<a>>]
N2(o, a, b) == [op |-> o, args |-> <<a, b>>]
N3(o, a, b, c) == [op |-> o, args |-> <<a, b, c>>]
Consts == {Num(0, 1), Num(0, -1), Num(1, 1), Num(2, 1), Num(-1, 1), Num(1, 2)}
NumLeaves == {V("x"), V("y"), V("p")} \cup Consts
LogLeaves == {V("p"), V("q")} \cup Consts
ArOps == {"add", "sub", "mul", "div"}
LgOps == {"xor", "implies", "iff", "b_and", "b_or", "b_xor", "b_implies", "b_iff"}
NumD1_(u) == NumLeaves
         \cup {B(o, a, b) : o \in ArOps, a \in NumLeaves, b \in NumLeaves}
         \cup {U(o, a) : o \in {"neg", "abs"}, a \in NumLeaves}
         \cup {N2(o, a, b) : o \in {"min", "max"}, a \in NumLeaves, b \in NumLeaves}
         \cup {N1(o, a) : o \in {"min", "max"}, a \in {V("x"), Num(2, 1)}}
LogD1_(u) == LogLeaves
         \cup {B(o, a, b) : o \in LgOps, a \in LogLeaves, b \in LogLeaves}
         \cup {U(o, a) : o \in {"not", "u_not"}, a \in LogLeaves}
         \cup {N2(o, a, b) : o \in {"and", "or"}, a \in LogLeaves, b \in LogLeaves}
         \cup {N1(o, a) : o \in {"and", "or"}, a \in {V("p"), Num(2, 1), Num(0, 1)}}
         \cup {[op |-> o, args |-> <<>>] : o \in {"and", "or"}}
SmallNum == {V("x"), V("y"), Num(0, 1), Num(2, 1), Num(-1, 1), Num(1, 2)}
SmallLog == {V("q"), Num(0, 1), Num(1, 1), Num(2, 1)}
\* depth 2: an operator over one depth-1 tree t and one leaf (both orders), unary over t, n-ary over three
WrapNum(t) == {B(o, t, l) : o \in ArOps, l \in SmallNum} \cup {B(o, l, t) : o \in ArOps, l \in SmallNum}
              \cup {U(o, t) : o \in {"neg", "abs"}}
              \cup {N2(o, t, l) : o \in {"min", "max"}, l \in {V("y"), Num(0, 1)}}
WrapLogAsNum(t) == {B(o, t, l) : o \in {"mul", "div", "sub"}, l \in {V("x"), Num(2, 1), Num(0, 1)}}
                   \cup {B(o, l, t) : o \in {"mul", "div", "sub"}, l \in {V("x"), Num(2, 1), Num(0, 1)}}
WrapLog(t) == {B(o, t, l) : o \in LgOps, l \in SmallLog} \cup {B(o, l, t) : o \in LgOps, l \in SmallLog}
              \cup {U(o, t) : o \in {"not", "u_not"}}
              \cup {N3(o, t, l, k) : o \in {"and", "or"}, l \in SmallLog, k \in {V("p"), Num(2, 1)}}
              \cup {N2(o, l, t) : o \in {"and", "or"}, l \in SmallLog}

VARIABLES base, tree, done
vars == <<base, tree, done>>
Init == base = Num(0, 1) /\ tree = Num(0, 1) /\ done = "no"
PickD1 == /\ Family = "d1" /\ done = "no" /\ (\E t \in NumD1_(0) \cup LogD1_(0) : tree' = t) /\ done' = "yes" /\ UNCHANGED base
\* family "zero": a zero factor around a depth-2 tree that contains a division (the absorbing
\* rule 0 * e -> 0 must not erase a zero or variable denominator hidden anywhere inside e)
DivBases == {B("div", a, b) : a \in NumLeaves, b \in NumLeaves}
ZeroWrap(t) == {B("mul", Num(0, 1), t), B("mul", t, Num(0, 1)), B("mul", Num(0, -1), t), B("mul", B("sub", V("x"), V("x")), t),
                \* a deciding logic constant next to the division: false in an and, true in an or
                N2("and", Num(0, 1), t), N2("and", t, Num(0, 1)), N3("and", V("p"), Num(0, 1), t), N2("or", Num(1, 1), t), N2("or", t, Num(2, 1)),
                B("b_and", Num(0, 1), t), B("b_or", t, Num(1, 1))}
\* family "negsum": the spellings of a negated sum (unary minus, subtraction from a leaf, scale -1, division by -1)
SumBases == {B(o, a, b) : o \in {"add", "sub"}, a \in NumLeaves, b \in NumLeaves}
NegWrap(t) == {U("neg", t), B("mul", Num(-1, 1), t), B("mul", t, Num(-2, 1)), B("div", t, Num(-1, 1)), U("neg", U("neg", t))}
              \cup {B("sub", l, t) : l \in {V("y"), Num(0, 1), Num(2, 1)}}
\* family "assoc": two binary operators of the same class applied in a row, in both groupings
\* (a o1 b) o2 c  and  a o1 (b o2 c): what precedence and associativity decide when written without parentheses
AssocTrees == {B(o2, B(o1, a, b), c) : o1 \in ArOps, o2 \in ArOps, a \in {V("x"), Num(2, 1)}, b \in {V("y"), Num(2, 1)}, c \in {V("x"), Num(-1, 1)}}
              \cup {B(o1, a, B(o2, b, c)) : o1 \in ArOps, o2 \in ArOps, a \in {V("x"), Num(2, 1)}, b \in {V("y"), Num(2, 1)}, c \in {V("x"), Num(-1, 1)}}
              \cup {B(o2, B(o1, a, b), c) : o1 \in LgOps, o2 \in LgOps, a \in {V("p"), Num(1, 1)}, b \in {V("q"), Num(0, 1)}, c \in {V("p"), V("q")}}
              \cup {B(o1, a, B(o2, b, c)) : o1 \in LgOps, o2 \in LgOps, a \in {V("p"), Num(1, 1)}, b \in {V("q"), Num(0, 1)}, c \in {V("p"), V("q")}}
\* family "idlog": and / or whose other operands are identity (or absorbing) constants, around an operand
\* that is not a truth value (an arithmetic expression over Booleans, a numeric variable): dropping the
\* constants must leave the operand's truth value, not the operand
IdOperands == {U("neg", V("p")), B("add", V("p"), Num(1, 1)), B("mul", Num(2, 1), V("p")), B("sub", V("p"), V("q")),
               U("abs", U("neg", V("p"))), N2("max", V("p"), Num(2, 1)), B("add", V("x"), Num(1, 1)), U("neg", V("x")), V("x"), V("p")}
IdCore == {N2(o, a, c) : o \in {"and", "or"}, a \in IdOperands, c \in Consts}
          \cup {N2(o, c, a) : o \in {"and", "or"}, a \in IdOperands, c \in Consts}
          \cup {N1(o, a) : o \in {"and", "or"}, a \in IdOperands}
          \cup {N3(o, c, a, d) : o \in {"and", "or"}, a \in IdOperands, c \in {Num(0, 1), Num(1, 1)}, d \in {Num(1, 1), Num(2, 1), Num(0, 1)}}
          \cup {B(o, a, c) : o \in {"b_and", "b_or"}, a \in IdOperands, c \in {Num(0, 1), Num(1, 1), Num(2, 1)}}
          \cup {B(o, c, a) : o \in {"b_and", "b_or"}, a \in IdOperands, c \in {Num(0, 1), Num(1, 1), Num(2, 1)}}
          \cup {N2(o, N2(o, a, c), V("q")) : o \in {"and", "or"}, a \in IdOperands, c \in {Num(0, 1), Num(1, 1)}}
IdTrees == IdCore \cup {B("mul", Num(3, 1), t) : t \in IdCore} \cup {B("add", t, V("y")) : t \in IdCore} \cup {U("not", t) : t \in IdCore}
\* family "idvar": the same around an operand that is a numeric VARIABLE once it is simplified (x + 0, 1 * x):
\* the simplifier lets a variable stand for `x or false`, so the compiler has to refuse these like `x or false`
\* itself (judged at model level only: C16)
IdVarOperands == {B("add", V("x"), Num(0, 1)), B("mul", Num(1, 1), V("x")), B("mul", V("x"), Num(1, 1)), B("sub", V("x"), Num(0, 1)),
                  U("neg", U("neg", V("x"))), B("div", V("x"), Num(1, 1))}
IdVarCore == {N2(o, a, c) : o \in {"and", "or"}, a \in IdVarOperands, c \in {Num(0, 1), Num(1, 1)}}
             \cup {N2(o, c, a) : o \in {"and", "or"}, a \in IdVarOperands, c \in {Num(0, 1), Num(1, 1)}}
             \cup {B(o, a, c) : o \in {"b_and", "b_or"}, a \in IdVarOperands, c \in {Num(0, 1), Num(1, 1)}}
IdVarTrees == IdVarCore \cup {B("mul", Num(3, 1), t) : t \in IdVarCore} \cup {B("add", t, V("y")) : t \in IdVarCore}
PickIdVar == /\ Family = "idvar" /\ done = "no" /\ (\E t \in IdVarTrees : tree' = t) /\ done' = "yes" /\ UNCHANGED base
PickId == /\ Family = "idlog" /\ done = "no" /\ (\E t \in IdTrees : tree' = t) /\ done' = "yes" /\ UNCHANGED base
\* family "prune": a zero or variable denominator inside an operand that a later pass could drop without
\* looking at it: a min / max operand another operand dominates whatever the variables are, a logic
\* comparison that holds for both truth values
PruneTrees == UNION {{N2("max", B("add", V("x"), Num(9, 1)), B("mul", Num(0, 1), t)), N2("max", B("mul", Num(0, 1), t), Num(5, 1)),
                      N2("min", B("sub", V("x"), Num(9, 1)), U("abs", t)), N2("min", U("abs", t), Num(-1, 1)),
                      N3("max", V("x"), Num(7, 1), B("mul", t, Num(0, 1))),
                      N2("or", V("p"), t), N2("and", t, V("p")), U("not", N2("or", V("p"), t))} : t \in DivBases}
PickPrune == /\ Family = "prune" /\ done = "no" /\ (\E t \in PruneTrees : tree' = t) /\ done' = "yes" /\ UNCHANGED base
PickAssoc == /\ Family = "assoc" /\ done = "no" /\ (\E t \in AssocTrees : tree' = t) /\ done' = "yes" /\ UNCHANGED base
PickBase == /\ Family \notin {"d1", "assoc", "idlog", "idvar", "prune"} /\ done = "no"
            /\ \E t \in (CASE Family = "d2num" -> NumD1_(0) \ NumLeaves [] Family = "zero" -> DivBases [] Family = "negsum" -> SumBases
                           [] OTHER -> LogD1_(0) \ LogLeaves) : base' = t
            /\ done' = "base" /\ UNCHANGED tree
Wrap == /\ done = "base"
        /\ \E t \in (CASE Family = "d2num" -> WrapNum(base)
                       [] Family = "zero" -> UNION {ZeroWrap(w) : w \in WrapNum(base)}
                       [] Family = "negsum" -> NegWrap(base)
                       [] OTHER -> WrapLog(base) \cup WrapLogAsNum(base)) : tree' = t
        /\ done' = "yes" /\ UNCHANGED base
Next == PickD1 \/ PickAssoc \/ PickId \/ PickIdVar \/ PickPrune \/ PickBase \/ Wrap
Spec == Init /\ [][Next]_vars
Emit == done = "yes" => PrintT(<<"CASE", ToJson([tree |-> tree])>>)
=============================================================================
