SPECIFICATION Spec
CONSTANT Family = "negsum"
INVARIANT Emit
CHECK_DEADLOCK FALSE
