------------------------------- MODULE KnapGen -------------------------------
(* Generator machine for multi-row 0/1 knapsack models (C15): items are      *)
(* added one at a time (value, two weights) until N items, then capacities   *)
(* are chosen.  Used in TLC simulation mode: every behaviour is one model    *)
(* whose branch-and-bound needs real search, so that a time limit can fire   *)
(* before the root relaxation, before the first incumbent, or mid-search.    *)
EXTENDS Integers, Sequences, FiniteSets, TLC, Json
CONSTANTS N, WithInt

Vals == 10..60
VARIABLES items, caps, phase
vars == <<items, caps, phase>>
Init == items = <<>> /\ caps = <<>> /\ phase = "items"
AddItem == /\ phase = "items" /\ Len(items) < N
           /\ \E v \in Vals, w1 \in Vals, w2 \in Vals : items' = Append(items, <<v, w1, w2>>)
           /\ UNCHANGED <<caps, phase>>
RECURSIVE SumW(_, _, _)
SumW(s, k, i) == IF i > Len(s) THEN 0 ELSE s[i][k] + SumW(s, k, i + 1)
ChooseCaps == /\ phase = "items" /\ Len(items) = N
              /\ \E f1 \in {3, 4, 5}, f2 \in {3, 4, 5} : caps' = <<(SumW(items, 2, 1) * f1) \div 10, (SumW(items, 3, 1) * f2) \div 10>>
              /\ phase' = "done" /\ UNCHANGED items
Next == AddItem \/ ChooseCaps
Spec == Init /\ [][Next]_vars
B(n) == [inf |-> 0, n |-> n, d |-> 1]
VarOf(i) == IF WithInt /\ i = 1 THEN [name |-> "y1", kind |-> "int", lo |-> B(0), hi |-> B(2)]
            ELSE [name |-> "b" \o ToString(i), kind |-> "bool", lo |-> B(0), hi |-> B(1)]
Case == [sense |-> "max", obj |-> [i \in 1..N |-> items[i][1]], off |-> 0, den |-> 1,
         vars |-> [i \in 1..N |-> VarOf(i)],
         rows |-> << [a |-> [i \in 1..N |-> items[i][2]], cmp |-> "le", b |-> caps[1], name |-> "w1"],
                     [a |-> [i \in 1..N |-> items[i][3]], cmp |-> "le", b |-> caps[2], name |-> "w2"] >>]
Emit == phase = "done" => PrintT(<<"CASE", ToJson(Case)>>)
=============================================================================
