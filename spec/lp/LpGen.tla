-------------------------------- MODULE LpGen --------------------------------
(* Generator machine for linear / mixed-integer linear models (LinearModel  *)
(* level).  Actions: DeclareVar (one of the variable kinds), AddRow (any    *)
(* coefficient vector in -CMag..CMag over the declared variables, any       *)
(* relation, any right-hand side in RhsSet; all-zero rows and duplicate     *)
(* rows included), SetObjective (sense, coefficients, offset), Finish.      *)
(* Terminal states are printed as cases; all numbers are integers over the  *)
(* denominator Den.  Kinds selects the family:                              *)
(*   "cont" continuous kinds, "mixed" also Boolean and integer; "cont2" and   *)
(*   "mixed2" are reduced kind sets for the two-variable families; "offset"  *)
(*   has the domains that exclude zero (Real(-inf, -2), Real(1, inf), ...)    *)
EXTENDS Integers, Sequences, FiniteSets, TLC, Json, SequencesExt
CONSTANTS NV, NR, CMag, Kinds, Den, Named

Fin(n) == [inf |-> 0, n |-> n, d |-> Den]
PInf == [inf |-> 1, n |-> 0, d |-> 1]
MInf == [inf |-> -1, n |-> 0, d |-> 1]
K(k, lo, hi) == [kind |-> k, lo |-> lo, hi |-> hi]
\* bounds exactly at zero matter: a Real(0, u) variable is still a *free* variable of the
\* standard form (split into two parts) and needs its x >= 0 row
ZeroKinds == {K("real", Fin(0), Fin(2 * Den)), K("real", Fin(0), PInf), K("nnreal", Fin(0), Fin(2 * Den)),
              K("real", Fin(-2 * Den), Fin(0))}
ContKinds == {K("real", MInf, PInf), K("nnreal", Fin(0), PInf), K("real", Fin(-1 * Den), Fin(2 * Den)),
              K("nnreal", Fin(1 * Den), Fin(3 * Den)), K("real", MInf, Fin(2 * Den)), K("real", Fin(-1 * Den), PInf)}
IntKinds == {K("bool", Fin(0), Fin(Den)), K("int", Fin(-1 * Den), Fin(2 * Den))}
\* domains that exclude zero (solver bridges shift, split or mirror variables around zero)
OffsetKinds == {K("real", MInf, Fin(-2 * Den)), K("real", Fin(1 * Den), PInf), K("real", Fin(-3 * Den), Fin(-1 * Den)),
                K("nnreal", Fin(2 * Den), PInf), K("int", Fin(-3 * Den), Fin(-1 * Den)), K("int", Fin(1 * Den), Fin(2 * Den))}
KindSet == CASE Kinds = "cont" -> ContKinds \cup ZeroKinds
             [] Kinds = "cont2" -> (ContKinds \ {K("real", Fin(-1 * Den), Fin(2 * Den))}) \cup {K("real", Fin(0), Fin(2 * Den)), K("real", Fin(-2 * Den), Fin(0))}
             [] Kinds = "mixed2" -> {K("real", MInf, PInf), K("nnreal", Fin(0), PInf), K("real", Fin(0), Fin(2 * Den)),
                                     K("nnreal", Fin(1 * Den), Fin(3 * Den)), K("real", MInf, Fin(2 * Den))} \cup IntKinds
             [] Kinds = "offset" -> OffsetKinds \cup {K("real", MInf, PInf), K("bool", Fin(0), Fin(Den))}
             [] OTHER -> ContKinds \cup ZeroKinds \cup IntKinds
RhsSet == {-2 * Den, 0, 1, 3 * Den}
Coefs == (-CMag)..CMag
Names == <<"v0", "v1", "v2", "v3">>

\* rows are drawn from a fixed enumeration in non-decreasing index order: a model
\* is a multiset of rows (duplicates allowed), not a sequence
RowSeq == SetToSeq([a : [1..NV -> Coefs], cmp : {"le", "ge", "eq"}, b : RhsSet])

VARIABLES phase, vs, rows, obj, last
vars == <<phase, vs, rows, obj, last>>
Init == phase = "vars" /\ vs = <<>> /\ rows = <<>> /\ obj = <<>> /\ last = 1
DeclareVar == /\ phase = "vars" /\ Len(vs) < NV
              /\ \E k \in KindSet : vs' = Append(vs, [k EXCEPT !.kind = k.kind] @@ [name |-> Names[Len(vs) + 1]])
              /\ UNCHANGED <<phase, rows, obj, last>>
StartRows == phase = "vars" /\ Len(vs) = NV /\ phase' = "rows" /\ UNCHANGED <<vs, rows, obj, last>>
RowName(i) == IF Named THEN (IF i = 1 THEN "r1" ELSE IF i = 2 THEN "r2" ELSE "r3") ELSE ""
AddRow == /\ phase = "rows" /\ Len(rows) < NR
          /\ \E k \in last..Len(RowSeq) :
                /\ rows' = Append(rows, RowSeq[k] @@ [name |-> RowName(Len(rows) + 1)])
                /\ last' = k
          /\ UNCHANGED <<phase, vs, obj>>
SetObjective == /\ phase = "rows"
                /\ \E s \in {"min", "max"}, o \in [1..NV -> Coefs] :
                      obj' = <<s, o, IF s = "min" THEN 0 ELSE 3>>
                /\ phase' = "done" /\ UNCHANGED <<vs, rows, last>>
Next == DeclareVar \/ StartRows \/ AddRow \/ SetObjective
Spec == Init /\ [][Next]_vars
Case == [sense |-> obj[1], obj |-> obj[2], off |-> obj[3], den |-> Den, vars |-> vs, rows |-> rows]
Emit == phase = "done" => PrintT(<<"CASE", ToJson(Case)>>)
=============================================================================
