SPECIFICATION Spec
CONSTANTS NV = 2
 NR = 1
 CMag = 1
 Kinds = "cont2"
 Den = 1
 Named = FALSE
INVARIANT Emit
CHECK_DEADLOCK FALSE
