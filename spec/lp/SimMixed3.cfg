SPECIFICATION Spec
CONSTANTS NV = 3
 NR = 3
 CMag = 2
 Kinds = "mixed"
 Den = 2
 Named = FALSE
INVARIANT Emit
CHECK_DEADLOCK FALSE
