SPECIFICATION Spec
CONSTANTS NV = 3
 NR = 3
 CMag = 2
 Kinds = "cont"
 Den = 1
 Named = TRUE
INVARIANT Emit
CHECK_DEADLOCK FALSE
