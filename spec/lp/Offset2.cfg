SPECIFICATION Spec
CONSTANTS NV = 2
 NR = 1
 CMag = 1
 Kinds = "offset"
 Den = 1
 Named = FALSE
INVARIANT Emit
CHECK_DEADLOCK FALSE
