SPECIFICATION Spec
CONSTANTS N = 10
 WithInt = FALSE
INVARIANT Emit
CHECK_DEADLOCK FALSE
