SPECIFICATION Spec
CONSTANTS NV = 1
 NR = 2
 CMag = 1
 Kinds = "offset"
 Den = 1
 Named = FALSE
INVARIANT Emit
CHECK_DEADLOCK FALSE
