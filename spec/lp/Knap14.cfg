SPECIFICATION Spec
CONSTANTS N = 14
 WithInt = FALSE
INVARIANT Emit
CHECK_DEADLOCK FALSE
