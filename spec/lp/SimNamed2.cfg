SPECIFICATION Spec
CONSTANTS NV = 2
 NR = 2
 CMag = 1
 Kinds = "cont"
 Den = 1
 Named = TRUE
INVARIANT Emit
CHECK_DEADLOCK FALSE
