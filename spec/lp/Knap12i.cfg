SPECIFICATION Spec
CONSTANTS N = 12
 WithInt = TRUE
INVARIANT Emit
CHECK_DEADLOCK FALSE
