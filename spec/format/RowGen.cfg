SPECIFICATION Spec
INVARIANT Emit
CHECK_DEADLOCK FALSE
