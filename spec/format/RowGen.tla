-------------------------------- MODULE RowGen --------------------------------
(* Generator machine for the forms of a constraint row (C11): what the row is   *)
(* (a comparison, a bare logic assertion in four shapes), how it is named (not, *)
(* a plain name, a name with an index) and how it is iterated (not, over one    *)
(* index, over two).  Every terminal state is one source text that compiles;    *)
(* the formatter must keep the body, the name and the iteration.                *)
EXTENDS Integers, Sequences, FiniteSets, TLC, Json
Bodies == {"cmp", "or", "not", "implies", "any"}
NameForms == {"none", "plain", "indexed"}
\* (arr .. zip: the binder forms - a value of an array, a pair from enumerate, a tuple binder with ONE name (it takes
\* the first component), three names over weighted edges, a pair from zip)
Iterations == {"none", "one", "two", "arr", "enum", "tuple1", "edgew", "zip"}
VARIABLES body, nameform, iter, phase
vars == <<body, nameform, iter, phase>>
Init == body = "cmp" /\ nameform = "none" /\ iter = "none" /\ phase = "body"
PickBody == phase = "body" /\ (\E b \in Bodies : body' = b) /\ phase' = "name" /\ UNCHANGED <<nameform, iter>>
PickName == phase = "name" /\ (\E n \in NameForms : nameform' = n) /\ phase' = "iter" /\ UNCHANGED <<body, iter>>
PickIter == phase = "iter" /\ (\E i \in Iterations : iter' = i) /\ phase' = "done" /\ UNCHANGED <<body, nameform>>
Next == PickBody \/ PickName \/ PickIter
Spec == Init /\ [][Next]_vars

\* the index expressions of the row: literal when the row is not iterated
I == IF iter = "none" THEN "0" ELSE "i"
J == IF iter \in {"two", "zip"} THEN "j" ELSE "1"
P == "p_" \o I \o "_" \o J
Q == "q_" \o I \o "_" \o J
BodyText == CASE body = "cmp" -> P \o " + " \o Q \o " <= 1"
              [] body = "or" -> P \o " or " \o Q
              [] body = "not" -> "not " \o P
              [] body = "implies" -> P \o " -> (" \o Q \o " or not " \o P \o ")"
              [] body = "any" -> "any { " \o P \o ", " \o Q \o " }"
NameText == CASE nameform = "none" -> "" [] nameform = "plain" -> "cover: "
              [] nameform = "indexed" -> (IF iter = "none" THEN "cover_0: " ELSE IF iter \in {"two", "zip"} THEN "cover_i_j: " ELSE "cover_i: ")
IterText == CASE iter = "none" -> "" [] iter = "one" -> " for i in 0..3" [] iter = "two" -> " for i in 0..3, j in 0..2"
              [] iter = "arr" -> " for i in S" [] iter = "enum" -> " for (v, i) in enumerate(S)" [] iter = "tuple1" -> " for (i) in enumerate(S)"
              [] iter = "edgew" -> " for (u, v, i) in edges(G)" [] iter = "zip" -> " for (i, j) in zip(S, T)"
Text == "max sum(i in 0..3, j in 0..2) { p_i_j + 2 * q_i_j }\ns.t.\n    " \o NameText \o BodyText \o IterText
        \o "\n    sum(i in 0..3, j in 0..2) { p_i_j + q_i_j } <= 4\n    sum((i) in enumerate(S)) { p_i_0 } + sum((u, v, i) in edges(G)) { q_i_1 } <= 3"
        \o "\nwhere\n    let S = [0, 2, 1]\n    let T = [1, 0, 1]\n    let G = Graph {\n        A -> [B: 1, C: 2],\n        B -> [C: 0],\n        C\n    }\ndefine\n    p_i_j, q_i_j as Boolean for i in 0..3, j in 0..2"
Emit == phase = "done" => PrintT(<<"CASE", ToJson([text |-> Text])>>)
=============================================================================
