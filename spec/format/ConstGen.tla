------------------------------- MODULE ConstGen -------------------------------
(* Generator machine for the parts of a program the formatter prints from VALUES  *)
(* rather than from expression trees (C11): constant declarations of every kind   *)
(* of literal, and names.  A program is built in three steps:                     *)
(*   PickName   the decision variable's name: plain, with leading underscores,    *)
(*              with a literal index (written escaped or as an index), with a     *)
(*              string index x_{"a"} (with or without a constant called a)        *)
(*   PickConst  one `let`: scalar spellings (2, 2.0, 1.5, -3, -0.5, true, "s"),    *)
(*              arrays of integers / fractional reals / reals mixing whole and    *)
(*              fractional values / Booleans / strings / mixed kinds / nested /   *)
(*              empty, and a constant expression                                  *)
(*   PickUse    how the row uses the constant: as a coefficient, through an       *)
(*              array access, as a range bound, or not at all                     *)
(* Every terminal state is one source text that parses.                           *)
EXTENDS Integers, Sequences, FiniteSets, TLC, Json

\* [use |-> how the variable is written in expressions, decl |-> how it is declared, pre |-> extra lets]
Names == {[use |-> "x", decl |-> "x", pre |-> ""], [use |-> "_x", decl |-> "_x", pre |-> ""], [use |-> "__y", decl |-> "__y", pre |-> ""],
          [use |-> "x_1", decl |-> "x_1", pre |-> ""], [use |-> "\\x_1", decl |-> "\\x_1", pre |-> ""],
          [use |-> "_x_b", decl |-> "_x_b", pre |-> ""],
          [use |-> "x_{\"a\"}", decl |-> "x_a", pre |-> ""], [use |-> "x_{\"a\"}", decl |-> "\\x_a, x_2", pre |-> "    let a = 1\n"],
          [use |-> "x_{a + 1}", decl |-> "x_2", pre |-> "    let a = 1\n"], [use |-> "$x", decl |-> "$x", pre |-> ""],
          \* indexes that have no bare spelling: fractional, negative, beyond the integer range, a name with a
          \* leading underscore, a base without letters
          [use |-> "x_{1.5}", decl |-> "x_{1.5}", pre |-> ""], [use |-> "x_{0 - 1}", decl |-> "x_{0 - 1}", pre |-> ""],
          [use |-> "x_{9223372036854775808}", decl |-> "x_{9223372036854775808}", pre |-> ""],
          [use |-> "x_{_a}", decl |-> "x_{_a}", pre |-> "    let _a = 1\n"], [use |-> "_{a}", decl |-> "_{a}", pre |-> "    let a = 2\n"],
          [use |-> "y_{a}_{b}", decl |-> "y_2_5", pre |-> "    let a = 2\n    let b = 5\n"],
          \* escaped names inside or in front of braces
          [use |-> "\\_{a}", decl |-> "\\_{a}", pre |-> "    let a = 3\n"], [use |-> "x_{\\a_b}", decl |-> "x_{\\a_b}", pre |-> "    let a = 1\n"]}
\* [text |-> the literal, kind |-> "num" | "arr" | "other", len |-> elements when an array of numbers]
C(t, k, n) == [text |-> t, kind |-> k, len |-> n]
Consts == {C("2", "num", 0), C("2.0", "num", 0), C("1.5", "num", 0), C("-3", "num", 0), C("-0.5", "num", 0), C("0.25", "num", 0),
           C("5 / 2.0", "num", 0), C("2 * 3 - 1", "num", 0), C("-(2)", "num", 0),
           C("true", "other", 0), C("false", "other", 0), C("\"s\"", "other", 0), C("\"two words\"", "other", 0),
           C("[3, 1, 2]", "arr", 3), C("[1.5, 0.25]", "arr", 2), C("[1.5, 2.0, 0.25]", "arr", 3), C("[2.0, 4.0]", "arr", 2),            C("[true, false]", "other", 0), C("[\"a\", \"b\"]", "other", 0), C("[1, \"a\", true]", "other", 0),
           C("[1, 2.5]", "arr", 2), C("[]", "other", 0), C("[[1, 2], [3, 4]]", "mat", 2), C("[[1.0, 2.5], [3.0, 4.0]]", "mat", 2), C("[[1, 2], [3]]", "other", 0),
           C("[[1.5], []]", "other", 0),
           \* array elements that the derived Debug form writes differently from the literal: strings with an
           \* escaped quote or a backslash, numbers that Debug writes with an exponent, a graph
           C("[\"a\\\"b\", \"c\"]", "other", 0), C("[\"p\\\\q\", \"r\"]", "other", 0),
           C("[0.000001, 2.5]", "arr", 2), C("[10000000000000000.5, 2.5]", "arr", 2), C("[9223372036854775808, 1]", "arr", 2),
           C("[9223372036854775808, \"a\"]", "other", 0), C("[Graph { A -> [B], B }]", "other", 0), C("0.000001", "num", 0),
           \* a range written as a function call, where the a..b spelling is not grammatical
           C("5000000000.0 * 5000000000", "num", 0), C("4.0 / 2", "num", 0), C("range(0, 3, false)", "arr", 3), C("range(1, 3, true)", "arr", 3)}
Uses(c) == CASE c.kind = "num" -> {"coef", "rhs", "none"}
              [] c.kind = "arr" -> {"access", "sum", "len", "none"}
              [] c.kind = "mat" -> {"access2", "rows", "none"}
              [] OTHER -> {"none"}

VARIABLES name, const, usage, phase
vars == <<name, const, usage, phase>>
Init == name = (CHOOSE n \in Names : n.use = "x") /\ const = C("2", "num", 0) /\ usage = "none" /\ phase = "name"
PickName == phase = "name" /\ (\E n \in Names : name' = n) /\ phase' = "const" /\ UNCHANGED <<const, usage>>
PickConst == phase = "const" /\ (\E c \in Consts : const' = c) /\ phase' = "use" /\ UNCHANGED <<name, usage>>
PickUse == phase = "use" /\ (\E u \in Uses(const) : usage' = u) /\ phase' = "done" /\ UNCHANGED <<name, const>>
Next == PickName \/ PickConst \/ PickUse
Spec == Init /\ [][Next]_vars

Row == CASE usage = "coef" -> "k * " \o name.use \o " <= 10"
         [] usage = "rhs" -> name.use \o " <= k + 7"
         [] usage = "access" -> "k[1] * " \o name.use \o " <= 10"
         [] usage = "sum" -> "sum(e in k) { e * " \o name.use \o " } <= 10"
         [] usage = "len" -> "sum(i in 0..len(k)) { k[i] * " \o name.use \o " } <= 10"
         [] usage = "access2" -> "k[1][0] * " \o name.use \o " <= 10"
         [] usage = "rows" -> "sum(r in k, e in r) { e * " \o name.use \o " } <= 10"
         [] OTHER -> name.use \o " <= 10"
Text == "max " \o name.use \o "\ns.t.\n    " \o Row \o "\nwhere\n" \o name.pre \o "    let k = " \o const.text \o "\ndefine\n    " \o name.decl \o " as Real(0, 5)"
Emit == phase = "done" => PrintT(<<"CASE", ToJson([text |-> Text])>>)
=============================================================================
