------------------------------ MODULE FormatTrace ------------------------------
(* Trace specification for  text --format--> text  (C11).  One event = one     *)
(* source text with: the formatted text, the formatted text formatted again,   *)
(* and the models the real front end compiles from the original (a) and from   *)
(* the formatted text (b).  Accepted iff                                       *)
(*   - a text that parses can be formatted, and the result parses              *)
(*   - formatting is idempotent: format(format(t)) = format(t)                 *)
(*   - a and b are the same outcome, and when both compile, the same model:    *)
(*     objective sense and tree, constraints in order (name, trees, relation), *)
(*     declarations (name, kind, bounds, used)                                 *)
(*   - for generated expression cases (tokens present): the objective of b has *)
(*     the value Pratt!Parse gives the ORIGINAL tokens at every assignment     *)
EXTENDS Pratt, Sem, Json, IOUtils, TLC

Rec == ndJsonDeserialize(IOEnv.TRACE)
Start == atoi(IOEnv.START)
VARIABLE l
vars == <<l>>
Vals == {0, 1, 2, 3, 5, 7}
Names(toks) == {toks[i].s : i \in {j \in 1..Len(toks) : toks[j].k = "id"}}

SameModel(a, b) == a.sense = b.sense /\ a.obj = b.obj /\ a.cons = b.cons /\ a.sdom = b.sdom
Problems(ev) ==
   LET If(c, w) == IF c THEN {w} ELSE {} IN
   If(ev.f1.out = "panic" \/ ev.f2.out = "panic" \/ ev.a.out = "panic" \/ ev.b.out = "panic", "panic")
   \cup If(ev.parses /\ ev.f1.out # "ok", "a text that parses cannot be formatted")
   \cup If(~ev.parses /\ ev.f1.out = "ok", "a text that does not parse was formatted")
   \cup If(ev.f1.out = "ok" /\ ~ev.fparses, "the formatted text does not parse")
   \cup If(ev.f1.out = "ok" /\ ev.f2.out = "ok" /\ ev.f2.text # ev.f1.text, "formatting is not idempotent")
   \cup If(ev.f1.out = "ok" /\ ev.a.out = "ok" /\ ev.b.out \notin {"ok", "unverifiable"}, "the formatted text no longer compiles")
   \cup If(ev.f1.out = "ok" /\ ev.a.out = "err" /\ ev.b.out = "ok", "the formatted text compiles although the original does not")
   \cup If(ev.a.out = "ok" /\ ev.b.out = "ok" /\ ~SameModel(ev.a, ev.b), "the formatted text compiles to a different model")
   \cup If("tokens" \in DOMAIN ev /\ ev.b.out = "ok" /\ WellFormed(ev.tokens) /\
           \E env \in [Names(ev.tokens) -> {R(v) : v \in Vals}] : Eval(Parse(ev.tokens).t, env) # Eval(ev.b.obj, env),
           "the formatted expression no longer has the value of the original tokens")

Check(ev) ==
   LET pb == Problems(ev) IN
   IF pb = {} THEN PrintT(<<"STAT", ev.id, ev.f1.out, ev.a.out, IF ev.f1.out = "ok" /\ ev.f1.text # ev.text THEN 1 ELSE 0>>)
   ELSE PrintT(<<"REJECT", "C11", ev.id, CHOOSE x \in pb : TRUE, ToJson(pb)>>)

Init == l = Start
Next == l <= Len(Rec) /\ Check(Rec[l]) /\ l' = l + 1
Spec == Init /\ [][Next]_vars
Accepted == IF TLCGet("stats").diameter = Len(Rec) - Start + 2
            THEN PrintT(<<"ACCEPTED", Len(Rec) - Start + 1>>)
            ELSE PrintT(<<"INCOMPLETE", TLCGet("stats").diameter>>) /\ FALSE
=============================================================================
