------------------------------ MODULE ParseTrace ------------------------------
(* Trace specification for  text --parse/transform--> expression tree  (C09). *)
(* One event = one generated token string, its rendered text and the tree the *)
(* real front end produced.  The tree is accepted iff it has the same VALUE   *)
(* as the reference reading Pratt!Parse(tokens) at every assignment of the    *)
(* variables to Vals (chosen to separate every regrouping); value equality,   *)
(* not tree equality, so an equivalent tree shape never alarms.               *)
EXTENDS Pratt, Sem, Json, IOUtils, TLC

Rec == ndJsonDeserialize(IOEnv.TRACE)
Start == atoi(IOEnv.START)
VARIABLE l
vars == <<l>>
Vals == {0, 1, 2, 3, 5, 7}
Names(ev) == {ev.tokens[i].s : i \in {j \in 1..Len(ev.tokens) : ev.tokens[j].k = "id"}}
Envs(ev) == [Names(ev) -> {R(v) : v \in Vals}]

Check(ev) ==
   IF ~WellFormed(ev.tokens) THEN PrintT(<<"SKIP", ev.id, "generator produced an ill-formed string">>)
   ELSE IF ev.out # "ok" THEN PrintT(<<"REJECT", "C09", ev.id, "well-formed expression rejected or crashed: " \o ev.out, ev.text>>)
   ELSE LET ref == Parse(ev.tokens).t
            bad == {env \in Envs(ev) : Eval(ref, env) # Eval(ev.tree, env)}
        IN  IF bad = {} THEN PrintT(<<"STAT", ev.id, Len(ev.tokens), Cardinality(Envs(ev))>>)
            ELSE PrintT(<<"REJECT", "C09", ev.id, "value differs from the documented grouping", ev.text, ToJson(CHOOSE e \in bad : TRUE)>>)

Init == l = Start
Next == l <= Len(Rec) /\ Check(Rec[l]) /\ l' = l + 1
Spec == Init /\ [][Next]_vars
Accepted == IF TLCGet("stats").diameter = Len(Rec) - Start + 2
            THEN PrintT(<<"ACCEPTED", Len(Rec) - Start + 1>>)
            ELSE PrintT(<<"INCOMPLETE", TLCGet("stats").diameter>>) /\ FALSE
=============================================================================
