SPECIFICATION Spec
CONSTANTS Family = "all"
 MaxLen = 12
INVARIANT Emit
CHECK_DEADLOCK FALSE
