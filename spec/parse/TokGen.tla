-------------------------------- MODULE TokGen --------------------------------
(* Generator machine for expression token strings (C09, C11).  The machine    *)
(* appends one token per step and tracks what the grammar allows next:        *)
(*   need = "operand"  : identifier, number, "(" or (once) a prefix operator  *)
(*   need = "operator" : binary operator, ")" when a parenthesis is open,     *)
(*                       a juxtaposed item when the current factor started    *)
(*                       with a number or parenthesis, or Finish              *)
(* Family "all": every string up to MaxLen tokens.  Family "ops3": the shape  *)
(*   a o1 [u] b o2 [u] c o3 d  for all operator triples and prefix choices.   *)
EXTENDS Integers, Sequences, FiniteSets, TLC, Json
CONSTANTS Family, MaxLen

Ops == {"add", "sub", "mul", "div", "and", "or", "xor", "implies", "iff"}
Uns == {"neg", "not"}
Ids == {"a", "b", "c"}
T(k, s, v) == [k |-> k, s |-> s, v |-> v]

VARIABLES toks, need, depth, juxt, unary, done
vars == <<toks, need, depth, juxt, unary, done>>
\* juxt: "start" = the factor so far consists of numbers / parentheses only (more items may follow)
Init == toks = <<>> /\ need = "operand" /\ depth = 0 /\ juxt = "no" /\ unary = FALSE /\ done = FALSE
Room == Len(toks) < MaxLen /\ ~done

PushId == /\ Room /\ need = "operand" /\ \E s \in Ids : toks' = Append(toks, T("id", s, 0))
          /\ need' = "operator" /\ juxt' = "no" /\ unary' = FALSE /\ UNCHANGED <<depth, done>>
PushNum == /\ Room /\ need = "operand" /\ toks' = Append(toks, T("num", "2", 2))
           /\ need' = "operator" /\ juxt' = "start" /\ unary' = FALSE /\ UNCHANGED <<depth, done>>
PushUn == /\ Room /\ need = "operand" /\ ~unary /\ \E u \in Uns : toks' = Append(toks, T("un", u, 0))
          /\ unary' = TRUE /\ UNCHANGED <<need, depth, juxt, done>>
PushLp == /\ Room /\ need = "operand" /\ toks' = Append(toks, T("lp", "(", 0))
          /\ depth' = depth + 1 /\ unary' = FALSE /\ juxt' = "no" /\ UNCHANGED <<need, done>>
PushOp == /\ Room /\ need = "operator" /\ \E o \in Ops : toks' = Append(toks, T("op", o, 0))
          /\ need' = "operand" /\ juxt' = "no" /\ UNCHANGED <<depth, unary, done>>
PushRp == /\ Room /\ need = "operator" /\ depth > 0 /\ toks' = Append(toks, T("rp", ")", 0))
          /\ depth' = depth - 1 /\ juxt' = "start" /\ UNCHANGED <<need, unary, done>>
\* juxtaposition: after a number or ")" that began the factor
JuxtNum == /\ Room /\ need = "operator" /\ juxt \in {"start"} /\ toks' = Append(toks, T("num", "3", 3))
           /\ UNCHANGED <<need, depth, juxt, unary, done>>
JuxtId == /\ Room /\ need = "operator" /\ juxt \in {"start"} /\ \E s \in Ids : toks' = Append(toks, T("id", s, 0))
          /\ juxt' = "no" /\ UNCHANGED <<need, depth, unary, done>>
JuxtLp == /\ Room /\ need = "operator" /\ juxt \in {"start"} /\ toks' = Append(toks, T("lp", "(", 0))
          /\ need' = "operand" /\ depth' = depth + 1 /\ juxt' = "injuxt" /\ UNCHANGED <<unary, done>>
Finish == ~done /\ need = "operator" /\ depth = 0 /\ Len(toks) >= 1 /\ done' = TRUE
          /\ UNCHANGED <<toks, need, depth, juxt, unary>>
NextAll == PushId \/ PushNum \/ PushUn \/ PushLp \/ PushOp \/ PushRp \/ JuxtNum \/ JuxtId \/ Finish

\* family ops3 is a direct enumeration
Ops3 == {<<o1, u1, o2, u2, o3>> : o1 \in Ops, u1 \in Uns \cup {"-"}, o2 \in Ops, u2 \in Uns \cup {"-"}, o3 \in Ops}
U(u) == IF u = "-" THEN <<>> ELSE <<T("un", u, 0)>>
Ops3Toks(x) == <<T("id", "a", 0), T("op", x[1], 0)>> \o U(x[2]) \o <<T("id", "b", 0), T("op", x[3], 0)>> \o U(x[4])
               \o <<T("id", "c", 0), T("op", x[5], 0), T("id", "d", 0)>>
NextOps3 == ~done /\ toks = <<>> /\ (\E x \in Ops3 : toks' = Ops3Toks(x)) /\ done' = TRUE /\ UNCHANGED <<need, depth, juxt, unary>>

\* family unpar: a prefix operator applied to a parenthesised binary operation whose left operand is a
\* number or a name, alone, after an operator, and before an operator:  u (A o1 B),  c o0 u (A o1 B),  u (A o1 B) o2 c
UnParCore == {<<u, la, o1, lb>> : u \in Uns, la \in {T("num", "2", 2), T("id", "a", 0)}, o1 \in Ops, lb \in {T("id", "b", 0), T("num", "3", 3)}}
CoreToks(x) == <<T("un", x[1], 0), T("lp", "(", 0), x[2], T("op", x[3], 0), x[4], T("rp", ")", 0)>>
UnParStrings == {CoreToks(x) : x \in UnParCore}
                \cup {<<T("id", "c", 0), T("op", o, 0)>> \o CoreToks(x) : x \in UnParCore, o \in Ops}
                \cup {CoreToks(x) \o <<T("op", o, 0), T("id", "c", 0)>> : x \in UnParCore, o \in Ops}
NextUnPar == ~done /\ toks = <<>> /\ (\E x \in UnParStrings : toks' = x) /\ done' = TRUE /\ UNCHANGED <<need, depth, juxt, unary>>

Next == IF Family = "ops3" THEN NextOps3 ELSE IF Family = "unpar" THEN NextUnPar ELSE NextAll
Spec == Init /\ [][Next]_vars
Emit == done => PrintT(<<"CASE", ToJson([tokens |-> toks])>>)
=============================================================================
