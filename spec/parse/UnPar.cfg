SPECIFICATION Spec
CONSTANTS Family = "unpar"
 MaxLen = 9
INVARIANT Emit
CHECK_DEADLOCK FALSE
