SPECIFICATION Spec
CONSTANTS Family = "ops3"
 MaxLen = 9
INVARIANT Emit
CHECK_DEADLOCK FALSE
