SPECIFICATION Spec
CONSTANTS Family = "all"
 MaxLen = 5
INVARIANT Emit
CHECK_DEADLOCK FALSE
