------------------------------- MODULE Rat -------------------------------
(* Exact rationals as <<n, d>> with d > 0 and gcd(n, d) = 1.               *)
(* <<0, 0>> is reserved by Sem for "undefined" and never produced here.    *)
EXTENDS Integers

AbsI(x) == IF x < 0 THEN -x ELSE x
SgnI(x) == IF x < 0 THEN -1 ELSE IF x > 0 THEN 1 ELSE 0
RECURSIVE Gcd(_, _)
Gcd(x, y) == IF y = 0 THEN x ELSE Gcd(y, x % y)
Norm(n, d) == LET s == IF d < 0 THEN -1 ELSE 1
                  g == Gcd(AbsI(n), AbsI(d))
              IN  <<(s * n) \div g, (s * d) \div g>>
R(n) == <<n, 1>>
RAdd(p, q) == Norm(p[1] * q[2] + q[1] * p[2], p[2] * q[2])
RSub(p, q) == Norm(p[1] * q[2] - q[1] * p[2], p[2] * q[2])
RMul(p, q) == Norm(p[1] * q[1], p[2] * q[2])
RDiv(p, q) == Norm(p[1] * q[2], p[2] * q[1])      \* requires q # 0
RNeg(p) == <<-p[1], p[2]>>
RLe(p, q) == p[1] * q[2] <= q[1] * p[2]
RLt(p, q) == p[1] * q[2] < q[1] * p[2]
RAbs(p) == <<AbsI(p[1]), p[2]>>
RMin(p, q) == IF RLe(p, q) THEN p ELSE q
RMax(p, q) == IF RLe(p, q) THEN q ELSE p
RZero(p) == p[1] = 0
RIsInt(p) == p[2] = 1
=============================================================================
