-------------------------------- MODULE FM --------------------------------
(* Exact decision of real linear systems by Fourier-Motzkin elimination    *)
(* over integer rows.  A row is [a |-> <<ints>>, b |-> int] and means      *)
(* a . u <= b over real u.  Complete for real feasibility; integrality is  *)
(* handled by the callers (enumeration).                                   *)
EXTENDS Integers, Sequences, FiniteSets, Rat

RECURSIVE SeqGcd(_, _)
SeqGcd(s, i) == IF i > Len(s) THEN 0 ELSE Gcd(AbsI(s[i]), SeqGcd(s, i + 1))
NormRow(r) == LET g == Gcd(SeqGcd(r.a, 1), AbsI(r.b)) IN
   IF g <= 1 THEN r
   ELSE [a |-> [i \in 1..Len(r.a) |-> r.a[i] \div g], b |-> r.b \div g]

\* rows whose coefficients all vanish carry only the verdict 0 <= b
Trivial(r) == \A i \in 1..Len(r.a) : r.a[i] = 0
Combine(p, n, k) ==
   NormRow([a |-> [i \in 1..Len(p.a) |-> (-n.a[k]) * p.a[i] + p.a[k] * n.a[i]],
            b |-> (-n.a[k]) * p.b + p.a[k] * n.b])
Elim(rows, k) == LET P == {r \in rows : r.a[k] > 0}
                     N == {r \in rows : r.a[k] < 0}
                     Z == {r \in rows : r.a[k] = 0}
                 IN  Z \cup {Combine(p, n, k) : p \in P, n \in N}
\* early exit: once a contradiction 0 <= b < 0 exists the answer is known
Contra(rows) == \E r \in rows : Trivial(r) /\ r.b < 0
RECURSIVE ElimDown(_, _, _)
ElimDown(rows, k, stop) ==
   IF k = stop \/ Contra(rows) THEN rows
   ELSE ElimDown({r \in Elim(rows, k) : ~(Trivial(r) /\ r.b >= 0)}, k - 1, stop)

Feasible(rows, nv) == ~Contra(ElimDown({NormRow(r) : r \in rows}, nv, 0))

\* Minimise column 1 after eliminating columns nv..2.
\* Result: [st |-> "inf"], [st |-> "unb"] or [st |-> "opt", v |-> rational]
OptMin(rows, nv) ==
   LET rs   == ElimDown({NormRow(r) : r \in rows}, nv, 1)
       lows == {Norm(r.b, r.a[1]) : r \in {q \in rs : q.a[1] < 0}}
       ups  == {Norm(r.b, r.a[1]) : r \in {q \in rs : q.a[1] > 0}}
   IN  IF Contra(rs) \/ (\E l \in lows, u \in ups : RLt(u, l)) THEN [st |-> "inf"]
       ELSE IF lows = {} THEN [st |-> "unb"]
       ELSE [st |-> "opt", v |-> CHOOSE l \in lows : \A m \in lows : RLe(m, l)]
=============================================================================
