-------------------------------- MODULE Sem --------------------------------
(* Meaning of ROOC expression trees and constraints, independent of the    *)
(* implementation.  Trees are records as written by the harness:           *)
(*   [op |-> "num", n, d]  [op |-> "var", name]                            *)
(*   unary  neg not u_not abs      : field a   (u_not: operator spelling)  *)
(*   binary add sub mul div xor implies iff                                *)
(*          and the operator-spelled logic b_and b_or b_xor b_implies b_iff *)
(*                                  : fields a, b                          *)
(*   n-ary  min max and or          : field args (sequence)                *)
(* Values are rationals (module Rat); Undef marks a division by zero.      *)
(* Logic follows the language's truthiness: a number is true iff it is not *)
(* zero, results are 0/1.                                                  *)
EXTENDS Integers, Sequences, FiniteSets, Rat

Undef == <<0, 0>>
IsDef(v) == v[2] # 0
Truthy(v) == v[1] # 0
BoolR(b) == IF b THEN R(1) ELSE R(0)

Un1(v, f(_)) == IF IsDef(v) THEN f(v) ELSE Undef
Bin2(v, w, f(_, _)) == IF IsDef(v) /\ IsDef(w) THEN f(v, w) ELSE Undef

LAnd(v, w) == BoolR(Truthy(v) /\ Truthy(w))
LOr(v, w) == BoolR(Truthy(v) \/ Truthy(w))
LXor(v, w) == BoolR(Truthy(v) # Truthy(w))
LImp(v, w) == BoolR(~Truthy(v) \/ Truthy(w))
LIff(v, w) == BoolR(Truthy(v) = Truthy(w))
LNot(v) == BoolR(~Truthy(v))
DivOrUndef(v, w) == IF RZero(w) THEN Undef ELSE RDiv(v, w)

RECURSIVE Eval(_, _)
RECURSIVE FoldArgs(_, _, _, _, _)
\* fold f over args[i..], starting from acc; strict in Undef
FoldArgs(args, i, env, acc, op) ==
   IF i > Len(args) THEN acc
   ELSE LET v == Eval(args[i], env) IN
        IF ~IsDef(v) \/ ~IsDef(acc) THEN Undef
        ELSE FoldArgs(args, i + 1, env,
                CASE op = "min" -> RMin(acc, v)
                  [] op = "max" -> RMax(acc, v)
                  [] op = "and" -> LAnd(acc, v)
                  [] op = "or"  -> LOr(acc, v), op)

Eval(e, env) ==
   CASE e.op = "num" -> Norm(e.n, e.d)
     [] e.op = "var" -> env[e.name]
     [] e.op = "neg" -> Un1(Eval(e.a, env), RNeg)
     [] e.op \in {"not", "u_not"} -> Un1(Eval(e.a, env), LNot)
     [] e.op = "abs" -> Un1(Eval(e.a, env), RAbs)
     [] e.op = "add" -> Bin2(Eval(e.a, env), Eval(e.b, env), RAdd)
     [] e.op = "sub" -> Bin2(Eval(e.a, env), Eval(e.b, env), RSub)
     [] e.op = "mul" -> Bin2(Eval(e.a, env), Eval(e.b, env), RMul)
     [] e.op = "div" -> Bin2(Eval(e.a, env), Eval(e.b, env), DivOrUndef)
     [] e.op \in {"xor", "b_xor"} -> Bin2(Eval(e.a, env), Eval(e.b, env), LXor)
     [] e.op \in {"implies", "b_implies"} -> Bin2(Eval(e.a, env), Eval(e.b, env), LImp)
     [] e.op \in {"iff", "b_iff"} -> Bin2(Eval(e.a, env), Eval(e.b, env), LIff)
     [] e.op = "b_and" -> Bin2(Eval(e.a, env), Eval(e.b, env), LAnd)
     [] e.op = "b_or" -> Bin2(Eval(e.a, env), Eval(e.b, env), LOr)
     [] e.op = "and" -> FoldArgs(e.args, 1, env, R(1), "and")
     [] e.op = "or"  -> FoldArgs(e.args, 1, env, R(0), "or")
     [] e.op \in {"min", "max"} ->
          IF Len(e.args) = 0 THEN Undef
          ELSE FoldArgs(e.args, 2, env, Eval(e.args[1], env), e.op)

\* variable names occurring in a tree
RECURSIVE VarsOf(_)
RECURSIVE VarsOfSeq(_, _)
VarsOfSeq(args, i) == IF i > Len(args) THEN {} ELSE VarsOf(args[i]) \cup VarsOfSeq(args, i + 1)
VarsOf(e) ==
   CASE e.op = "num" -> {}
     [] e.op = "var" -> {e.name}
     [] e.op \in {"neg", "not", "u_not", "abs"} -> VarsOf(e.a)
     [] e.op \in {"min", "max", "and", "or"} -> VarsOfSeq(e.args, 1)
     [] OTHER -> VarsOf(e.a) \cup VarsOf(e.b)

Cmp(c, v, w) ==
   CASE c = "le" -> RLe(v, w)
     [] c = "ge" -> RLe(w, v)
     [] c = "eq" -> v = w
     [] c = "lt" -> RLt(v, w)
     [] c = "gt" -> RLt(w, v)

\* a source constraint: [lhs, cmp, rhs, assert]
SatCon(c, env) ==
   IF c.assert THEN LET v == Eval(c.lhs, env) IN IsDef(v) /\ Truthy(v)
   ELSE LET v == Eval(c.lhs, env)
            w == Eval(c.rhs, env)
        IN  IsDef(v) /\ IsDef(w) /\ Cmp(c.cmp, v, w)

\* bounds: [inf |-> -1 | 0 | 1, n, d]   (inf # 0: minus / plus infinity)
LoOk(lo, v) == lo.inf = -1 \/ (lo.inf = 0 /\ RLe(Norm(lo.n, lo.d), v))
HiOk(hi, v) == hi.inf = 1 \/ (hi.inf = 0 /\ RLe(v, Norm(hi.n, hi.d)))
\* membership of a value in a declared domain [kind, lo, hi]
InDom(dm, v) ==
   CASE dm.kind = "bool" -> v \in {R(0), R(1)}
     [] dm.kind = "int"  -> RIsInt(v) /\ LoOk(dm.lo, v) /\ HiOk(dm.hi, v)
     [] dm.kind = "real" -> LoOk(dm.lo, v) /\ HiOk(dm.hi, v)
     [] dm.kind = "nnreal" -> RLe(R(0), v) /\ LoOk(dm.lo, v) /\ HiOk(dm.hi, v)
=============================================================================
