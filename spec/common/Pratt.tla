-------------------------------- MODULE Pratt --------------------------------
(* Reference meaning of expression token strings: precedence climbing with  *)
(* the table the language documents.                                        *)
(*   level 7  prefix - and not (bind tightest; at most one per operand)      *)
(*   level 6  * /     level 5  + -     level 4  and    level 3  xor          *)
(*   level 2  or      level 1  implies (right-assoc) and iff (left-assoc)    *)
(*            share the lowest level, each keeping its own associativity     *)
(* all other binary operators group to the left.  A juxtaposition of numbers *)
(* and parentheses, optionally followed by one variable (2x, 2(x+1),         *)
(* (a)(b)c), is an implicit multiplication and forms ONE factor.             *)
(* Tokens: [k |-> "id"|"num"|"op"|"un"|"lp"|"rp", s |-> name/op, v |-> int]  *)
(* Trees use the same shapes as module Sem.                                  *)
EXTENDS Integers, Sequences

Prec(o) == CASE o \in {"implies", "iff"} -> 1 [] o = "or" -> 2 [] o = "xor" -> 3 [] o = "and" -> 4
             [] o \in {"add", "sub"} -> 5 [] o \in {"mul", "div"} -> 6
RightAssoc(o) == o = "implies"
TreeOp(o) == CASE o = "and" -> "b_and" [] o = "or" -> "b_or" [] o = "xor" -> "b_xor"
               [] o = "implies" -> "b_implies" [] o = "iff" -> "b_iff" [] OTHER -> o
Bin(o, x, y) == [op |-> TreeOp(o), a |-> x, b |-> y]
Un(o, x) == [op |-> (IF o = "neg" THEN "neg" ELSE "u_not"), a |-> x]
NumT(v) == [op |-> "num", n |-> v, d |-> 1]
VarT(s) == [op |-> "var", name |-> s]
IsK(toks, p, k) == p <= Len(toks) /\ toks[p].k = k

RECURSIVE PExp(_, _, _)
RECURSIVE PLoop(_, _, _, _)
RECURSIVE POperand(_, _)
RECURSIVE PJuxt(_, _, _)

\* one juxtaposition item: a number or a parenthesised expression
Item(toks, p) == IF IsK(toks, p, "num") THEN [t |-> NumT(toks[p].v), p |-> p + 1]
                 ELSE LET r == PExp(toks, p + 1, 1) IN [t |-> r.t, p |-> r.p + 1]      \* skip ")"
\* further items of an implicit product: (number | parenthesis)* variable?
PJuxt(toks, acc, p) ==
   IF IsK(toks, p, "num") \/ IsK(toks, p, "lp")
   THEN LET it == Item(toks, p) IN PJuxt(toks, [op |-> "mul", a |-> acc, b |-> it.t], it.p)
   ELSE IF IsK(toks, p, "id") THEN [t |-> [op |-> "mul", a |-> acc, b |-> VarT(toks[p].s)], p |-> p + 1]
   ELSE [t |-> acc, p |-> p]
\* a primary with its optional prefix operator (prefix binds tighter than any infix)
POperand(toks, p) ==
   IF IsK(toks, p, "un") THEN LET r == POperand(toks, p + 1) IN [t |-> Un(toks[p].s, r.t), p |-> r.p]
   ELSE IF IsK(toks, p, "id") THEN [t |-> VarT(toks[p].s), p |-> p + 1]
   ELSE LET it == Item(toks, p) IN PJuxt(toks, it.t, it.p)
PLoop(toks, lhs, p, minp) ==
   IF IsK(toks, p, "op") /\ Prec(toks[p].s) >= minp
   THEN LET o == toks[p].s
            r == PExp(toks, p + 1, IF RightAssoc(o) THEN Prec(o) ELSE Prec(o) + 1)
        IN  PLoop(toks, Bin(o, lhs, r.t), r.p, minp)
   ELSE [t |-> lhs, p |-> p]
PExp(toks, p, minp) == LET l == POperand(toks, p) IN PLoop(toks, l.t, l.p, minp)

Parse(toks) == PExp(toks, 1, 1)
WellFormed(toks) == Parse(toks).p = Len(toks) + 1
=============================================================================
