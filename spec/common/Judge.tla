-------------------------------- MODULE Judge --------------------------------
(* Reference judgement of an answer to an abstract model over enumerable        *)
(* (integer / Boolean) domains: `ev` carries the abstract model (sense, obj,     *)
(* cons, dom), `res` an answer (out, kind, point, value).  Used by E2ETrace      *)
(* (C03) and DoorsTrace (C16).                                                   *)
EXTENDS Sem, TLC

Used(ev) == VarsOf(ev.obj) \cup UNION {VarsOf(ev.cons[i].lhs) \cup (IF ev.cons[i].assert THEN {} ELSE VarsOf(ev.cons[i].rhs)) : i \in 1..Len(ev.cons)}
DeclOf(ev, nm) == ev.dom[CHOOSE i \in 1..Len(ev.dom) : ev.dom[i].name = nm]
DomVals(d) == IF d.kind = "bool" THEN {R(0), R(1)} ELSE {R(i) : i \in (d.lo.n \div d.lo.d)..(d.hi.n \div d.hi.d)}
Envs(ev) == {e \in [Used(ev) -> UNION {DomVals(DeclOf(ev, nm)) : nm \in Used(ev)}] : \A nm \in Used(ev) : e[nm] \in DomVals(DeclOf(ev, nm))}
Sat(ev, env) == \A i \in 1..Len(ev.cons) : SatCon(ev.cons[i], env)
Better(ev, v, w) == IF ev.sense = "min" THEN RLt(v, w) ELSE RLt(w, v)     \* v strictly better than w

PointOf(ev, res) == [nm \in Used(ev) |->
   LET S == {j \in 1..Len(res.point) : res.point[j].name = nm} IN
   IF Cardinality(S) = 1 /\ res.point[CHOOSE j \in S : TRUE].v.snap
   THEN LET o == res.point[CHOOSE j \in S : TRUE].v IN Norm(o.n, o.d) ELSE Undef]
Judge(ev, res) ==
   LET sat == {env \in Envs(ev) : Sat(ev, env)}
       If(c, w) == IF c THEN {w} ELSE {}
   IN
   CASE res.out = "solution" ->
          LET pt == PointOf(ev, res) IN
          If(sat = {}, "a solution is returned although no assignment satisfies the text")
          \cup If(\E nm \in Used(ev) : ~IsDef(pt[nm]), "a used variable has no (exact) value in the solution")
          \cup (IF \A nm \in Used(ev) : IsDef(pt[nm]) THEN
                  If(\E nm \in Used(ev) : pt[nm] \notin DomVals(DeclOf(ev, nm)), "a returned value is outside its declared domain")
                  \cup If(~Sat(ev, pt), "the returned values violate a constraint of the text")
                  \cup If(ev.sense # "sat" /\ (~res.value.snap \/ Norm(res.value.n, res.value.d) # Eval(ev.obj, pt)),
                          "the reported objective is not the objective of the text at the returned values")
                  \cup If(ev.sense # "sat" /\ \E env \in sat : Better(ev, Eval(ev.obj, env), Eval(ev.obj, pt)),
                          "a satisfying assignment has a strictly better objective")
                ELSE {})
     [] res.out = "solver_error" /\ res.kind = "Infeasible" ->
          If(sat # {}, "infeasible reported although an assignment satisfies the text")
     [] res.out = "solver_error" -> {"solver error " \o res.kind \o " on a bounded model"}
     [] OTHER -> {"the generated program is rejected: " \o res.out}

---------------------------------------------------------------------------
(* Bounded Real declarations (C03, family R): the declared range cannot be  *)
(* enumerated, so the judgement keeps the conditions that are exact at the  *)
(* returned point and uses the grid of halves inside the ranges for the     *)
(* rest -- every rule is a NECESSARY condition of the property, none can    *)
(* raise an alarm on a right answer:                                        *)
(*   a solution: its values are exact rationals inside their ranges (whole  *)
(*   numbers for integer variables), satisfy every constraint, the reported *)
(*   objective is the objective there, and no satisfying GRID point is      *)
(*   strictly better; Infeasible: no grid point satisfies the text.         *)
GridVals(d) == IF d.kind = "real" THEN {Norm(k, 2) : k \in (2 * (d.lo.n \div d.lo.d))..(2 * (d.hi.n \div d.hi.d))} ELSE DomVals(d)
GridEnvs(ev) == {e \in [Used(ev) -> UNION {GridVals(DeclOf(ev, nm)) : nm \in Used(ev)}] : \A nm \in Used(ev) : e[nm] \in GridVals(DeclOf(ev, nm))}
InRange(d, v) == IF d.kind = "real" THEN RLe(Norm(d.lo.n, d.lo.d), v) /\ RLe(v, Norm(d.hi.n, d.hi.d)) ELSE v \in DomVals(d)
JudgeReal(ev, res) ==
   LET sat == {env \in GridEnvs(ev) : Sat(ev, env)}
       If(c, w) == IF c THEN {w} ELSE {}
   IN
   CASE res.out = "solution" ->
          LET pt == PointOf(ev, res) IN
          IF \E nm \in Used(ev) : ~IsDef(pt[nm]) THEN {}      \* (no exact value crossed: nothing is judged)
          ELSE If(\E nm \in Used(ev) : ~InRange(DeclOf(ev, nm), pt[nm]), "a returned value is outside its declared range")
               \cup If(~Sat(ev, pt), "the returned values violate a constraint of the text")
               \cup If(ev.sense # "sat" /\ res.value.snap /\ Norm(res.value.n, res.value.d) # Eval(ev.obj, pt),
                       "the reported objective is not the objective of the text at the returned values")
               \cup If(ev.sense # "sat" /\ \E env \in sat : Better(ev, Eval(ev.obj, env), Eval(ev.obj, pt)),
                       "a satisfying assignment (on the grid of halves) has a strictly better objective")
     [] res.out = "solver_error" /\ res.kind = "Infeasible" ->
          If(sat # {}, "infeasible reported although an assignment (on the grid of halves) satisfies the text")
     [] res.out = "solver_error" -> {"solver error " \o res.kind \o " on a bounded model"}
     [] OTHER -> {"the generated program is rejected: " \o res.out}

=============================================================================
