-------------------------------- MODULE Grid --------------------------------
(* The bounded universe of assignments the trace specifications quantify    *)
(* over: a sample grid per declared variable, and satisfaction of a source  *)
(* model (domains + constraints) by an assignment.                          *)
EXTENDS Sem, TLC

---------------------------------------------------------------------------
(* sample grid of one declared variable d = [name, kind, lo, hi]; g = grid  *)
(* denominator (1, 2 or 4) chosen per event by the driver                   *)
W == 4
FloorQ(b, g) == (b.n * g) \div b.d            \* floor(b * g)
CeilQ(b, g) == -(((-b.n) * g) \div b.d)
Clip(x, lo, hi) == IF x < lo THEN lo ELSE IF x > hi THEN hi ELSE x
Far == {1024, 32768}
Samples(d, g) ==
   CASE d.kind = "bool" -> {R(0), R(1)}
     [] d.kind = "int" ->
          LET lo == Clip(CeilQ(d.lo, 1) - 1, -W - 1, W + 1)
              hi == Clip(FloorQ(d.hi, 1) + 1, -W - 1, W + 1)
          IN  {R(i) : i \in lo..hi}
     [] OTHER ->
          LET lo == IF d.lo.inf # 0 THEN -W * g ELSE Clip(FloorQ(d.lo, g) - 1, -W * g, W * g)
              hi == IF d.hi.inf # 0 THEN W * g ELSE Clip(CeilQ(d.hi, g) + 1, -W * g, W * g)
              far == (IF d.hi.inf # 0 THEN {R(f) : f \in Far} ELSE {})
                     \cup (IF d.lo.inf # 0 THEN {R(-f) : f \in Far} ELSE {})
          IN  {Norm(i, g) : i \in lo..hi} \cup far

UsedDecls(ev) == SelectSeq(ev.sdom, LAMBDA d : d.used)
RECURSIVE EnvsR(_, _, _)
EnvsR(ds, i, g) ==
   IF i > Len(ds) THEN {<<>>}
   ELSE {(ds[i].name :> v) @@ e : v \in Samples(ds[i], g), e \in EnvsR(ds, i + 1, g)}
Envs(ev) == EnvsR(UsedDecls(ev), 1, ev.g)

---------------------------------------------------------------------------
(* source side *)
SatSrc(ev, env) ==
   /\ \A i \in 1..Len(ev.sdom) : ev.sdom[i].used => InDom(ev.sdom[i], env[ev.sdom[i].name])
   /\ \A i \in 1..Len(ev.cons) : SatCon(ev.cons[i], env)

=============================================================================
