-------------------------------- MODULE NameTrace --------------------------------
(* Trace specification for the names of compiled rows (C08).  One event = one    *)
(* program of NameGen.tla (names and row counts of its constraints, in order)    *)
(* and the names of the rows of the compiled linear model, in order (the last    *)
(* row is the unnamed `x + y <= 9` every program ends with).  Accepted iff        *)
(*  - (rows are mapped to constraints by position when every constraint compiled  *)
(*    to as many rows as its kind says; otherwise only the first two rules and    *)
(*    "derived from SOME user-written name" are judged)                           *)
(*  - named rows have pairwise different names; rows of unnamed constraints have  *)
(*    no name and rows of named constraints have one;                            *)
(*  - the first row of the first constraint that carries a user-written name N    *)
(*    and compiles to a row is named N;                                          *)
(*  - every row of a constraint named N is named N or N__<digits>;               *)
(*  - no row carries a name the user wrote for ANOTHER constraint.               *)
EXTENDS Integers, Sequences, FiniteSets, TLC, Json, IOUtils
Rec == ndJsonDeserialize(IOEnv.TRACE)
Start == atoi(IOEnv.START)
VARIABLE l
vars == <<l>>
RECURSIVE SumEmits(_, _)
SumEmits(cs, i) == IF i > Len(cs) THEN 0 ELSE cs[i].emits + SumEmits(cs, i + 1)
\* owner of row k: the constraint whose rows cover position k
RECURSIVE OwnerFrom(_, _, _, _)
OwnerFrom(cs, i, before, k) == IF k <= before + cs[i].emits THEN i ELSE OwnerFrom(cs, i + 1, before + cs[i].emits, k)
Owner(ev, k) == OwnerFrom(ev.cons, 1, 0, k)
Digits == {"0", "1", "2", "3", "4", "5", "6", "7", "8", "9"}
Derived(r, n) == r = n \/ (Len(r) > Len(n) + 2 /\ SubSeq(r, 1, Len(n) + 2) = n \o "__"
                           /\ \A i \in (Len(n) + 3)..Len(r) : SubSeq(r, i, i) \in Digits)
UserNames(ev) == {ev.cons[i].name : i \in 1..Len(ev.cons)} \ {""}
FirstEmitter(ev, n) == LET S == {i \in 1..Len(ev.cons) : ev.cons[i].name = n /\ ev.cons[i].emits > 0} IN
                       IF S = {} THEN 0 ELSE CHOOSE i \in S : \A j \in S : i <= j
FirstRowOf(ev, i) == 1 + SumEmits(SubSeq(ev.cons, 1, i - 1), 1)
Problems(ev) ==
   LET If(c, w) == IF c THEN {w} ELSE {}
       n == SumEmits(ev.cons, 1)
       rows == ev.rownames
   IN  \* (another lowering may compile a kind to another number of rows: rows can then not be mapped to
       \* constraints by position, and only the rules that need no mapping are judged)
       IF Len(rows) # n + 1
       THEN If(\E i, j \in 1..Len(rows) : i < j /\ rows[i] # "" /\ rows[i] = rows[j], "two rows have the same name")
            \cup If(\E k \in 1..Len(rows) : rows[k] # "" /\ ~\E nm \in UserNames(ev) : Derived(rows[k], nm), "a row name is not derived from a user-written name")
       ELSE If(\E i, j \in 1..n : i < j /\ rows[i] # "" /\ rows[i] = rows[j], "two rows have the same name")
            \cup If(\E k \in 1..n : (ev.cons[Owner(ev, k)].name = "") # (rows[k] = ""), "a row of an unnamed constraint has a name, or a row of a named one has none")
            \cup If(\E nm \in UserNames(ev) : FirstEmitter(ev, nm) # 0 /\ rows[FirstRowOf(ev, FirstEmitter(ev, nm))] # nm,
                    "the first use of a user-written name is not preserved")
            \cup If(\E k \in 1..n : ev.cons[Owner(ev, k)].name # "" /\ ~Derived(rows[k], ev.cons[Owner(ev, k)].name),
                    "a row name is not derived from the name of its constraint")
            \cup If(\E k \in 1..n : rows[k] \in UserNames(ev) /\ rows[k] # ev.cons[Owner(ev, k)].name,
                    "a generated name takes a name the user wrote for another constraint")
            \cup If(rows[n + 1] # "", "the unnamed last row got a name")
Check(ev) ==
   IF ev.out # "ok" THEN PrintT(<<"REJECT", "C08", ev.id, "a program of named rows does not compile: " \o ev.out, "">>)
   ELSE LET pb == Problems(ev) IN
        IF pb = {} THEN PrintT(<<"STAT", ev.id, Len(ev.cons), IF Len(ev.rownames) = SumEmits(ev.cons, 1) + 1 THEN Len(ev.rownames) ELSE 0, Cardinality({k \in 1..Len(ev.rownames) : ev.rownames[k] \notin UserNames(ev) \cup {""}})>>)
        ELSE PrintT(<<"REJECT", "C08", ev.id, CHOOSE x \in pb : TRUE, ToJson(ev.rownames)>>)
Init == l = Start
Next == l <= Len(Rec) /\ Check(Rec[l]) /\ l' = l + 1
Spec == Init /\ [][Next]_vars
Accepted == IF TLCGet("stats").diameter = Len(Rec) - Start + 2
            THEN PrintT(<<"ACCEPTED", Len(Rec) - Start + 1>>)
            ELSE PrintT(<<"INCOMPLETE", TLCGet("stats").diameter>>) /\ FALSE
=============================================================================
