SPECIFICATION Spec
CONSTANT Family = "D"
INVARIANT Emit
CHECK_DEADLOCK FALSE
