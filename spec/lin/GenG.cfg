SPECIFICATION Spec
CONSTANT Family = "G"
INVARIANT Emit
CHECK_DEADLOCK FALSE
