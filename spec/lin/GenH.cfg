SPECIFICATION Spec
CONSTANT Family = "H"
INVARIANT Emit
CHECK_DEADLOCK FALSE
