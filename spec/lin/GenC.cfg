SPECIFICATION Spec
CONSTANT Family = "C"
INVARIANT Emit
CHECK_DEADLOCK FALSE
