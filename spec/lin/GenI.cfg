SPECIFICATION Spec
CONSTANT Family = "I"
INVARIANT Emit
CHECK_DEADLOCK FALSE
