SPECIFICATION Spec
POSTCONDITION Accepted
CHECK_DEADLOCK FALSE
