------------------------------ MODULE ModelGen ------------------------------
(* Generator machine for source models (GEN side of corpus K).             *)
(* State: the model under construction.  Actions: ChooseDom, AddCon,       *)
(* SetObj, Finish.  Every terminal state is printed as one JSON case that  *)
(* the harness turns into a rooc `Model` through the public Exp API and    *)
(* feeds to the real Linearizer.  TLC's breadth-first search enumerates    *)
(* the family completely; the families are finite by construction.         *)
(*   A  one arithmetic constraint  T cmp c,  T of depth <= 2               *)
(*   B  logic formulas of depth <= 2 as assertions / compared / as values  *)
(*   C  interplay: row-derived bounds feeding exact abs/min/max, nested    *)
(*      negative scales, shared sub-expressions                            *)
(*   D  objectives with nested abs/min/max under mixed-sign coefficients   *)
(*   I  exact min / max over three operands, one dominated, in every order *)
EXTENDS Integers, Sequences, FiniteSets, TLC, Json

CONSTANT Family

Num(n, d) == [op |-> "num", n |-> n, d |-> d]
V(s) == [op |-> "var", name |-> s]
U(o, a) == [op |-> o, a |-> a]
B(o, a, b) == [op |-> o, a |-> a, b |-> b]
N2(o, a, b) == [op |-> o, args |-> <<a, b>>]
N3(o, a, b, c) == [op |-> o, args |-> <<a, b, c>>]
Fin(n, d) == [inf |-> 0, n |-> n, d |-> d]
PInf == [inf |-> 1, n |-> 0, d |-> 1]
MInf == [inf |-> -1, n |-> 0, d |-> 1]
Decl(nm, k, lo, hi) == [name |-> nm, kind |-> k, lo |-> lo, hi |-> hi]
Con(l, c, r) == [lhs |-> l, cmp |-> c, rhs |-> r, assert |-> FALSE, name |-> ""]
Asrt(l) == [lhs |-> l, cmp |-> "eq", rhs |-> Num(1, 1), assert |-> TRUE, name |-> ""]
Cmps == {"le", "ge", "eq"}

x == V("x")
y == V("y")
p == V("p")
q == V("q")
r == V("r")

---------------------------------------------------------------------------
(* family A *)
LeavesA == {x, y, Num(1, 1), Num(-3, 2)}
VarsA == {x, y}
ScalesA == {Num(-2, 1), Num(1, 2)}
D1A == LeavesA
       \cup {U("neg", v) : v \in VarsA} \cup {U("abs", v) : v \in VarsA}
       \cup {B("mul", k, v) : k \in ScalesA, v \in VarsA}
       \cup {B("div", v, Num(-2, 1)) : v \in VarsA}
       \cup {B(o, a, b) : o \in {"add", "sub"}, a \in VarsA, b \in LeavesA \ {Num(-3, 2)}}
       \cup UNION {{N2(o, a, b) : o \in {"min", "max"}, b \in LeavesA \ {a}} : a \in VarsA}
D2A == D1A
       \cup {U(o, t) : o \in {"neg", "abs"}, t \in D1A \ LeavesA}
       \cup {B("mul", Num(-2, 1), t) : t \in D1A \ LeavesA}
       \cup {B("mul", t, Num(1, 2)) : t \in D1A \ LeavesA}
       \cup {B("div", t, Num(-2, 1)) : t \in D1A \ LeavesA}
       \cup {B(o, t, l) : o \in {"add", "sub"}, t \in D1A \ LeavesA, l \in {y, Num(1, 1)}}
       \cup {B("sub", l, t) : t \in D1A \ LeavesA, l \in {y, Num(1, 1)}}
       \cup {N2(o, t, l) : o \in {"min", "max"}, t \in D1A \ LeavesA, l \in {y, Num(1, 2)}}
DomsA == {
   <<Decl("x", "real", Fin(-2, 1), Fin(2, 1)), Decl("y", "real", Fin(-1, 1), Fin(3, 2))>>,
   <<Decl("x", "int", Fin(-2, 1), Fin(2, 1)), Decl("y", "nnreal", Fin(0, 1), Fin(2, 1))>>,
   <<Decl("x", "bool", Fin(0, 1), Fin(1, 1)), Decl("y", "int", Fin(-1, 1), Fin(2, 1))>> }
ConsA == {Con(t, c, k) : t \in D2A \ LeavesA, c \in Cmps, k \in {Num(-1, 1), Num(1, 2), Num(2, 1)}}

---------------------------------------------------------------------------
(* family B *)
L0 == {p, q, U("not", p), Num(1, 1), Num(0, 1)}
L1 == L0 \cup {N2(o, a, b) : o \in {"and", "or"}, a \in {p, U("not", p)}, b \in {q, U("not", q), Num(1, 1)}}
         \cup {B(o, a, b) : o \in {"xor", "implies", "iff", "b_and", "b_or", "b_implies"}, a \in {p, U("not", p)}, b \in {q, Num(0, 1)}}
         \cup {N3(o, p, q, r) : o \in {"and", "or"}}
         \* a negation under a negation (the rendering has to keep them apart: one prefix operator per operand)
         \cup {U(o, U("not", p)) : o \in {"not", "u_not"}} \cup {N2("or", U("not", U("not", q)), p)}
L2 == L1 \cup {U(o, t) : o \in {"not", "u_not"}, t \in L1 \ L0}
         \cup {N2(o, t, l) : o \in {"and", "or"}, t \in L1 \ L0, l \in {r, U("not", r)}}
         \cup {B(o, t, r) : o \in {"xor", "implies", "iff"}, t \in L1 \ L0}
         \cup {B(o, r, t) : o \in {"implies", "b_iff", "b_xor"}, t \in L1 \ L0}
DomsB == { <<Decl("p", "bool", Fin(0, 1), Fin(1, 1)), Decl("q", "bool", Fin(0, 1), Fin(1, 1)),
             Decl("r", "bool", Fin(0, 1), Fin(1, 1)), Decl("x", "real", Fin(-1, 1), Fin(2, 1))>> }
ConsB == {Asrt(t) : t \in L2 \ L0}
         \cup {Con(t, c, k) : t \in L1 \ L0, c \in Cmps, k \in {Num(0, 1), Num(1, 1), Num(1, 2)}}
         \cup {Con(B("add", t, x), c, Num(1, 1)) : t \in L1 \ L0, c \in {"le", "ge"}}
         \cup {Con(B("sub", B("mul", Num(2, 1), t), r), c, Num(1, 1)) : t \in L1 \ L0, c \in Cmps}
         \cup {Con(N2("max", t, x), "le", Num(1, 2)) : t \in L1 \ L0}
         \cup {Con(U("abs", B("sub", t, x)), c, Num(1, 2)) : t \in L1 \ L0, c \in {"le", "ge"}}

---------------------------------------------------------------------------
(* family C: x is an unbounded real whose range comes only from rows *)
BoundRowsC == {
   <<Con(x, "le", Num(2, 1)), Con(x, "ge", Num(-1, 1))>>,
   <<Con(B("mul", Num(-2, 1), x), "ge", Num(-4, 1)), Con(B("mul", Num(-2, 1), x), "le", Num(2, 1))>>,
   <<Con(Num(2, 1), "ge", x), Con(U("neg", x), "le", Num(1, 1))>>,
   <<Con(B("add", x, y), "le", Num(2, 1)), Con(B("sub", x, y), "ge", Num(-2, 1))>>,
   <<Con(B("div", x, Num(-2, 1)), "ge", Num(-1, 1)), Con(B("mul", x, Num(1, 2)), "ge", Num(-1, 2))>>,
   <<Con(U("abs", x), "le", Num(2, 1))>> }
InnerC == {x, B("sub", x, y), B("mul", Num(-2, 1), x), B("sub", Num(1, 1), x), B("add", x, Num(1, 2)),
           U("neg", B("mul", Num(-1, 2), B("sub", x, Num(1, 1)))) }
ExactC == {U("abs", t) : t \in InnerC}
          \cup {N2(o, t, u) : o \in {"min", "max"}, t \in InnerC, u \in {y, Num(0, 1), U("neg", x)}}
          \cup {B("sub", U("abs", t), U("abs", y)) : t \in InnerC}
          \cup {B("mul", Num(-1, 1), N2("min", t, U("abs", y))) : t \in InnerC}
ConsC == {Con(t, c, k) : t \in ExactC, c \in Cmps, k \in {Num(1, 1), Num(-1, 2)}}
         \cup {Con(t, c, t2) : t \in {U("abs", x), N2("max", x, y)}, c \in {"le", "ge"}, t2 \in {B("add", U("abs", x), Num(-1, 1)), N2("min", x, y)}}
DomsC == { <<Decl("x", "real", MInf, PInf), Decl("y", "real", Fin(-1, 1), Fin(1, 1))>>,
           <<Decl("x", "real", MInf, PInf), Decl("y", "int", Fin(0, 1), Fin(2, 1))>> }

---------------------------------------------------------------------------
(* family D: objectives *)
TermD == {U("abs", x), U("abs", B("sub", x, y)), N2("min", x, y), N2("max", x, y), N2("max", x, Num(0, 1)),
          N3("min", x, y, Num(1, 2)), U("abs", N2("min", x, y)), N2("max", U("abs", x), y),
          N2("and", p, q), N2("or", p, U("not", q)), B("xor", p, q), x, p,
          U("abs", B("sub", N2("min", x, y), Num(5, 1))), U("abs", B("add", N2("max", x, y), Num(5, 1))),
          U("abs", B("sub", U("abs", x), Num(5, 1))), N2("max", B("sub", N2("min", x, y), Num(5, 1)), Num(-10, 1))}
ObjD == TermD
        \cup {B("mul", k, t) : k \in {Num(-2, 1), Num(1, 2)}, t \in TermD}
        \cup {B("div", t, Num(-2, 1)) : t \in TermD}
        \cup {B(o, t, u) : o \in {"add", "sub"}, t \in TermD \ {x, p}, u \in {U("abs", y), N2("min", y, Num(0, 1)), p, y}}
        \cup {B("sub", Num(3, 1), U("neg", t)) : t \in TermD}
DomsD == { <<Decl("x", "real", Fin(-2, 1), Fin(1, 1)), Decl("y", "int", Fin(-1, 1), Fin(1, 1)),
             Decl("p", "bool", Fin(0, 1), Fin(1, 1)), Decl("q", "bool", Fin(0, 1), Fin(1, 1))>> }
ConsD == {Con(B("add", x, y), "le", Num(1, 1)), Con(B("sub", x, p), "ge", Num(-2, 1)),
          Con(U("abs", x), "ge", Num(1, 2)), Asrt(B("implies", p, q))}

---------------------------------------------------------------------------
(* family F: sign-known abs and dominated min/max operands around nested    *)
(* piecewise terms: the operand of abs is provably <= 0 or >= 0 (shifted by *)
(* +-5), so abs is lowered without an auxiliary and the value requirement   *)
(* must be passed on (reversed for the negative side) to the nested term;   *)
(* max{t, 10} / min{t, -10} prune the dominated operand                     *)
InnerF == {N2("min", x, y), N2("max", x, y), U("abs", x), N2("min", x, Num(1, 1)),
           N2("max", y, Num(-1, 2)), U("abs", B("sub", x, y)), N3("max", x, y, Num(1, 2))}
ShiftF == UNION {{B("sub", t, Num(5, 1)), B("add", t, Num(5, 1)), B("sub", Num(-5, 1), t),
                  U("neg", B("add", t, Num(5, 1))), B("mul", Num(-1, 1), B("sub", Num(5, 1), t))} : t \in InnerF}
TermF == {U("abs", sh) : sh \in ShiftF}
         \cup {N2("max", sh, Num(-10, 1)) : sh \in ShiftF} \cup {N2("min", sh, Num(10, 1)) : sh \in ShiftF}
         \cup {N2("max", U("abs", sh), Num(1, 1)) : sh \in ShiftF}
ConsF == {Con(t, c, k) : t \in TermF, c \in Cmps, k \in {Num(4, 1), Num(13, 2)}}
         \cup {Con(B("mul", Num(-2, 1), t), c, k) : t \in TermF, c \in {"le", "ge"}, k \in {Num(-8, 1), Num(-13, 1)}}
         \cup {Con(B("sub", Num(1, 1), t), c, Num(-3, 1)) : t \in TermF, c \in {"le", "ge"}}
DomsF == { <<Decl("x", "real", Fin(0, 1), Fin(3, 1)), Decl("y", "real", Fin(0, 1), Fin(3, 1))>>,
           <<Decl("x", "int", Fin(-2, 1), Fin(2, 1)), Decl("y", "real", Fin(-1, 1), Fin(3, 2))>> }
---------------------------------------------------------------------------
(* family G: end-to-end programs over enumerable domains (C03): integer and *)
(* Boolean variables only, so the reference interpreter decides the model   *)
(* by enumerating the declared domains.  One constraint (G, exhaustive) or  *)
(* two (H, TLC simulation) and a min / max / satisfy objective.             *)
LeafG == {x, y, Num(1, 1), Num(-2, 1)}
TermG == {x, y, p}
         \cup {B(o, a, b) : o \in {"add", "sub"}, a \in {x, y}, b \in LeafG}
         \cup {B("mul", k, v) : k \in {Num(2, 1), Num(-1, 1), Num(1, 2)}, v \in {x, y}}
         \cup {B("div", v, Num(2, 1)) : v \in {x, y}}
         \cup {U("abs", B("sub", x, y)), U("abs", x), U("neg", y)}
         \cup {N2(o, a, b) : o \in {"min", "max"}, a \in {x, B("sub", x, Num(1, 1))}, b \in {y, Num(1, 1)}}
         \cup {B("sub", x, B("sub", y, Num(1, 1))), B("sub", x, B("add", y, Num(1, 1))), B("mul", Num(2, 1), B("add", x, y)),
               B("div", B("sub", x, y), Num(2, 1)), B("sub", B("mul", Num(2, 1), x), U("abs", y)),
               B("add", N2("and", p, q), x), B("sub", y, B("xor", p, q)), B("mul", Num(2, 1), N2("or", p, U("not", q)))}
LogG == {N2("and", p, q), N2("or", p, U("not", q)), B("implies", p, q), B("iff", p, q), B("xor", p, q), U("not", p),
         B("implies", B("implies", p, q), p), B("iff", B("implies", p, q), q), B("implies", p, B("iff", q, p)),
         N2("or", N2("and", p, q), U("not", p)), N2("and", N2("or", p, q), U("not", N2("and", p, q)))}
ConsG == {Con(t, c, k) : t \in TermG, c \in Cmps, k \in {Num(1, 1), Num(3, 1), Num(-1, 1)}}
         \cup {Asrt(l) : l \in LogG}
         \cup {Con(B("add", l, x), c, Num(2, 1)) : l \in LogG, c \in {"le", "ge"}}
ObjG == {<<s, t>> : s \in {"min", "max"}, t \in TermG} \cup {<<"sat", Num(0, 1)>>}
DomsG == { <<Decl("x", "int", Fin(-2, 1), Fin(3, 1)), Decl("y", "int", Fin(0, 1), Fin(4, 1)),
             Decl("p", "bool", Fin(0, 1), Fin(1, 1)), Decl("q", "bool", Fin(0, 1), Fin(1, 1))>> }
---------------------------------------------------------------------------
(* family E: naming and well-formedness corner cases (C08)                  *)
NamedCon(nm, c) == [c EXCEPT !.name = nm]
InfP == Num(1, 0)     \* +infinity (symbolic: d = 0)
InfM == Num(-1, 0)
ax == V("$abs_0")
ms == V("$max_0_select_1")
z == V("z")
DomsE == { <<Decl("x", "real", MInf, PInf), Decl("y", "real", Fin(-1, 1), Fin(1, 1)),
             Decl("$abs_0", "real", Fin(-1, 1), Fin(1, 1)), Decl("$max_0_select_1", "bool", Fin(0, 1), Fin(1, 1)), Decl("$or_0", "bool", Fin(0, 1), Fin(1, 1)),
             Decl("u", "int", Fin(0, 1), Fin(3, 1)), Decl("z", "nnreal", Fin(0, 1), PInf),
             Decl("w", "real", MInf, Fin(2, 1))>> }
ConsE == {NamedCon("a", Con(U("abs", y), "ge", Num(1, 2))),
          NamedCon("a", Con(B("add", y, ax), "le", Num(1, 1))),
          NamedCon("a__2", Con(y, "ge", Num(-1, 2))),
          NamedCon("b", Con(N2("max", y, ax), "ge", Num(0, 1))),
          NamedCon("b", Asrt(N2("or", ms, U("not", ms)))),
          \* a reified disjunction next to a user variable that has the name of its auxiliary (and its kind)
          Con(B("add", N2("or", ms, V("$or_0")), y), "le", Num(1, 1)),
          Con(U("abs", x), "ge", Num(1, 1)),
          Con(U("abs", B("add", x, z)), "ge", Num(1, 1)),
          Con(N2("max", x, y), "le", Num(1, 1)),
          Con(N2("min", x, z), "le", Num(1, 1)),
          Con([op |-> "min", args |-> <<>>], "le", Num(1, 1)),
          Con(x, "le", InfP),
          Con(B("add", x, InfP), "ge", Num(0, 1)),
          Con(B("sub", InfP, InfP), "le", y),
          Con(B("mul", Num(0, 1), x), "le", InfP),
          NamedCon("c", Con(B("mul", Num(0, 1), B("add", x, z)), "le", Num(1, 1))),
          Con(N2("max", U("abs", y), InfM), "ge", Num(1, 2)),
          Con(U("abs", N2("min", x, Num(3, 1))), "le", Num(2, 1)),
          \* exact lowerings over half-bounded operands: the aggregate range is finite, one operand side is not
          Con(N2("max", V("w"), Num(0, 1)), "ge", Num(1, 1)),
          Con(N2("min", z, Num(1, 1)), "le", Num(1, 2)),
          Con(B("sub", Num(0, 1), N2("max", V("w"), y)), "le", Num(0, 1))}
---------------------------------------------------------------------------
(* family I: exact min / max over three operands whose ranges differ, one of them dominated by     *)
(* another (it can never be the extreme and is pruned), in every order - the big-M constant of     *)
(* each retained operand must come from that operand's own range                                  *)
zz == V("z")
DomsI == { <<Decl("x", "real", Fin(-2, 1), Fin(1, 1)), Decl("y", "real", Fin(-1, 1), Fin(3, 1)), Decl("z", "real", Fin(-4, 1), Fin(-3, 1))>>,
           <<Decl("x", "real", Fin(-3, 1), Fin(0, 1)), Decl("y", "real", Fin(1, 1), Fin(2, 1)), Decl("z", "real", Fin(3, 1), Fin(4, 1))>>,
           <<Decl("x", "int", Fin(-2, 1), Fin(2, 1)), Decl("y", "real", Fin(0, 1), Fin(4, 1)), Decl("z", "real", Fin(-4, 1), Fin(-2, 1))>> }
Orders3 == {<<x, y, zz>>, <<x, zz, y>>, <<y, x, zz>>, <<y, zz, x>>, <<zz, x, y>>, <<zz, y, x>>}
Ext3 == {N3(o, a[1], a[2], a[3]) : o \in {"min", "max"}, a \in Orders3}
        \cup {N3(o, a[1], B("mul", Num(2, 1), a[2]), a[3]) : o \in {"min", "max"}, a \in Orders3}
ConsI == {Con(t, c, k) : t \in Ext3, c \in Cmps, k \in {Num(1, 2), Num(2, 1), Num(-1, 1)}}
         \cup {Con(B("mul", Num(-1, 1), t), c, Num(-1, 2)) : t \in Ext3, c \in {"le", "ge"}}
         \cup {Con(B("add", t, x), c, Num(1, 1)) : t \in Ext3, c \in {"le", "ge"}}
---------------------------------------------------------------------------
\* family J: the same three-operand blocks in the OBJECTIVE (alone, minus a variable, negated plus a variable):
\* an optimum that needs the exact value of the block, with a dominated operand in any position (C02)
ObjJ == {t : t \in Ext3} \cup {B("sub", t, y) : t \in Ext3} \cup {B("add", B("mul", Num(-1, 1), t), x) : t \in Ext3}
ConsJ == {Con(B("add", x, y), "le", Num(3, 1)), Con(B("sub", x, zz), "ge", Num(-1, 1))}
Doms == CASE Family = "A" -> DomsA [] Family = "B" -> DomsB [] Family = "C" -> DomsC [] Family = "D" -> DomsD [] Family = "E" -> DomsE [] Family = "F" -> DomsF [] Family \in {"I", "J"} -> DomsI [] Family \in {"G", "H"} -> DomsG
Cons == CASE Family = "A" -> ConsA [] Family = "B" -> ConsB [] Family = "C" -> ConsC [] Family = "D" -> ConsD [] Family = "E" -> ConsE [] Family = "F" -> ConsF [] Family = "I" -> ConsI [] Family = "J" -> ConsJ [] Family \in {"G", "H"} -> ConsG
Pre  == CASE Family = "C" -> BoundRowsC [] OTHER -> {<<>>}
Objs == CASE Family = "D" -> {<<s, o>> : s \in {"min", "max"}, o \in ObjD}
          [] Family = "C" -> {<<"min", U("abs", x)>>, <<"max", N2("min", x, y)>>, <<"sat", Num(0, 1)>>}
          [] Family = "E" -> {<<"min", U("abs", ax)>>, <<"sat", Num(0, 1)>>}
          [] Family \in {"G", "H"} -> ObjG
          [] Family = "J" -> {<<s, o>> : s \in {"min", "max"}, o \in ObjJ}
          [] OTHER -> {<<"sat", Num(0, 1)>>}
MaxCons == CASE Family = "D" -> 2 [] Family = "E" -> 3 [] Family = "H" -> 2 [] OTHER -> 1
MinCons == CASE Family = "D" -> 0 [] OTHER -> 1

VARIABLES phase, dom, cons, obj, n
vars == <<phase, dom, cons, obj, n>>

Init == phase = "dom" /\ dom = <<>> /\ cons = <<>> /\ obj = <<"sat", Num(0, 1)>> /\ n = 0
ChooseDom == /\ phase = "dom"
             /\ \E d \in Doms, pr \in Pre : dom' = d /\ cons' = pr
             /\ phase' = "cons" /\ UNCHANGED <<obj, n>>
\* constraints are added in a canonical order (a set of rows, not a sequence)
AddCon == /\ phase = "cons" /\ n < MaxCons
          /\ \E c \in Cons : (\A i \in 1..Len(cons) : cons[i] # c) /\ cons' = Append(cons, c)
          /\ n' = n + 1 /\ UNCHANGED <<phase, dom, obj>>
SetObj == /\ phase = "cons" /\ n >= MinCons
          /\ \E o \in Objs : obj' = o
          /\ phase' = "done" /\ UNCHANGED <<dom, cons, n>>
Next == ChooseDom \/ AddCon \/ SetObj
Spec == Init /\ [][Next]_vars

Case == [sense |-> obj[1], obj |-> obj[2], cons |-> cons, dom |-> dom, fam |-> Family]
Emit == phase = "done" => PrintT(<<"CASE", ToJson(Case)>>)
=============================================================================
