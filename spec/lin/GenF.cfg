SPECIFICATION Spec
CONSTANT Family = "F"
INVARIANT Emit
CHECK_DEADLOCK FALSE
