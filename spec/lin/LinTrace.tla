------------------------------ MODULE LinTrace ------------------------------
(* Trace specification for the action                                      *)
(*      Linearize : Model -> LinearModel | error                           *)
(* Each recorded event carries the source model and what the real          *)
(* Linearizer::linearize returned for it.  The specification does not      *)
(* re-implement the lowering rules; it states the relation the action must *)
(* establish between its input and its output (DESIGN 2.5):                *)
(*   C01  projection of the linear feasible set onto the declared          *)
(*        variables = source feasible set                                  *)
(*   C02  best linear objective over the auxiliary extensions of a         *)
(*        source-feasible assignment = source objective                    *)
(*   C07a published ranges contain every source-feasible value             *)
(*   C08  structural well-formedness of the output / allowed errors        *)
(* Auxiliary Booleans are enumerated (depth-first with pruning), real      *)
(* auxiliaries are eliminated exactly (FM).  Declared variables are        *)
(* quantified over the sample grid Samples(d).                             *)
EXTENDS Grid, FM, Json, IOUtils, TLC

Rec == ndJsonDeserialize(IOEnv.TRACE)
Props == IOEnv.PROPS              \* e.g. "C01,C02"
Start == atoi(IOEnv.START)        \* first event to validate (1-based)
Q == 4                            \* common denominator of all sampled values

Has(p) == \E i \in 1..(Len(Props) - 2) : SubSeq(Props, i, i + 2) = p

VARIABLE l
vars == <<l>>

---------------------------------------------------------------------------
(* linear side *)
NV(ev) == Len(ev.lm.vars)
Idx(ev) == 1..NV(ev)
IsCont(v) == v.kind \in {"real", "nnreal"}
BoolAux(ev) == SelectSeq([i \in Idx(ev) |-> i], LAMBDA i : ev.lm.vars[i].aux /\ ev.lm.vars[i].kind = "bool")
ContAux(ev) == SelectSeq([i \in Idx(ev) |-> i], LAMBDA i : ev.lm.vars[i].aux /\ IsCont(ev.lm.vars[i]))
OtherAux(ev) == {i \in Idx(ev) : ev.lm.vars[i].aux /\ ev.lm.vars[i].kind = "int"}

ScaleQ(v) == v[1] * (Q \div v[2])            \* numerator over Q; v[2] divides Q
\* fixed part of an assignment: declared variables, as numerators over Q
FxOf(ev, env) == [i \in {j \in Idx(ev) : ~ev.lm.vars[j].aux} |-> ScaleQ(env[ev.lm.vars[i].name])]

RECURSIVE Dot(_, _, _)
Dot(a, fx, i) == IF i > Len(a) THEN 0
                 ELSE (IF i \in DOMAIN fx THEN a[i] * fx[i] ELSE 0) + Dot(a, fx, i + 1)
Decided(r, fx) == \A i \in 1..Len(r.a) : r.a[i] # 0 => i \in DOMAIN fx
CmpI(c, x, y) == CASE c = "le" -> x <= y [] c = "ge" -> x >= y [] c = "eq" -> x = y
                   [] c = "lt" -> x < y [] c = "gt" -> x > y
RowHolds(r, fx) == CmpI(r.cmp, Dot(r.a, fx, 1), r.b * Q)
RowsPruned(ev, fx) == \E k \in 1..Len(ev.lm.rows) :
                         Decided(ev.lm.rows[k], fx) /\ ~RowHolds(ev.lm.rows[k], fx)

\* declared variables must lie in the *published* (possibly tightened) domain
FixedOk(ev, env) == \A i \in Idx(ev) : ~ev.lm.vars[i].aux =>
                        InDom(ev.lm.vars[i], env[ev.lm.vars[i].name])

\* FM rows over the continuous auxiliaries cs (positions 1..Len(cs)), with an
\* optional leading objective column T (obj = TRUE), sgn = 1 (min) / -1 (max)
Pre(obj, s) == IF obj THEN <<0>> \o s ELSE s
RowLE(ev, r, fx, cs, obj, neg) ==
   LET m == IF neg THEN -1 ELSE 1 IN
   [a |-> Pre(obj, [j \in 1..Len(cs) |-> m * Q * r.a[cs[j]]]),
    b |-> m * (r.b * Q - Dot(r.a, fx, 1))]
RowSet(ev, r, fx, cs, obj) ==
   CASE r.cmp \in {"le", "lt"} -> {RowLE(ev, r, fx, cs, obj, FALSE)}
     [] r.cmp \in {"ge", "gt"} -> {RowLE(ev, r, fx, cs, obj, TRUE)}
     [] r.cmp = "eq" -> {RowLE(ev, r, fx, cs, obj, FALSE), RowLE(ev, r, fx, cs, obj, TRUE)}
Unit(cs, j, c) == [k \in 1..Len(cs) |-> IF k = j THEN c ELSE 0]
DomRows(ev, cs, obj) ==
   UNION {LET v == ev.lm.vars[cs[j]] IN
          (IF v.lo.inf = 0 THEN {[a |-> Pre(obj, Unit(cs, j, -v.lo.d)), b |-> -v.lo.n]} ELSE {})
          \cup (IF v.hi.inf = 0 THEN {[a |-> Pre(obj, Unit(cs, j, v.hi.d)), b |-> v.hi.n]} ELSE {})
          \cup (IF v.kind = "nnreal" THEN {[a |-> Pre(obj, Unit(cs, j, -1)), b |-> 0]} ELSE {})
          : j \in 1..Len(cs)}
ObjRows(ev, fx, cs, sgn) ==
   LET a == <<ev.lm.oden * Q>> \o [j \in 1..Len(cs) |-> -sgn * Q * ev.lm.obj[cs[j]]]
       b == sgn * (Dot(ev.lm.obj, fx, 1) + ev.lm.off * Q)
   IN  {[a |-> a, b |-> b], [a |-> [k \in 1..Len(a) |-> -a[k]], b |-> -b]}
FMRows(ev, fx, cs, obj, sgn) ==
   UNION {RowSet(ev, ev.lm.rows[k], fx, cs, obj) : k \in 1..Len(ev.lm.rows)}
   \cup DomRows(ev, cs, obj)
   \cup (IF obj THEN ObjRows(ev, fx, cs, sgn) ELSE {})

\* (1) does some auxiliary extension satisfy all rows and domains?
RECURSIVE ExB(_, _, _, _, _)
ExB(ev, fx, bs, cs, k) ==
   IF RowsPruned(ev, fx) THEN FALSE
   ELSE IF k > Len(bs) THEN Feasible(FMRows(ev, fx, cs, FALSE, 1), Len(cs))
   ELSE ExB(ev, fx @@ (bs[k] :> 0), bs, cs, k + 1) \/ ExB(ev, fx @@ (bs[k] :> Q), bs, cs, k + 1)
ExistsAux(ev, env) ==
   FixedOk(ev, env) /\ ExB(ev, FxOf(ev, env), BoolAux(ev), ContAux(ev), 1)

\* (2) best objective value over all auxiliary extensions, in direction sgn
Inf == [st |-> "inf"]
Join(p, q) == IF p.st = "unb" \/ q.st = "unb" THEN [st |-> "unb"]
              ELSE IF p.st = "inf" THEN q ELSE IF q.st = "inf" THEN p
              ELSE IF RLe(p.v, q.v) THEN p ELSE q
RECURSIVE BestB(_, _, _, _, _, _)
BestB(ev, fx, bs, cs, k, sgn) ==
   IF RowsPruned(ev, fx) THEN Inf
   ELSE IF k > Len(bs) THEN OptMin(FMRows(ev, fx, cs, TRUE, sgn), Len(cs) + 1)
   ELSE Join(BestB(ev, fx @@ (bs[k] :> 0), bs, cs, k + 1, sgn),
             BestB(ev, fx @@ (bs[k] :> Q), bs, cs, k + 1, sgn))
Sgn(ev) == IF ev.sense = "max" THEN -1 ELSE 1
Best(ev, env) ==
   IF ~FixedOk(ev, env) THEN Inf
   ELSE LET r == BestB(ev, FxOf(ev, env), BoolAux(ev), ContAux(ev), 1, Sgn(ev))
        IN  IF r.st = "opt" THEN [st |-> "opt", v |-> IF Sgn(ev) = 1 THEN r.v ELSE RNeg(r.v)] ELSE r

---------------------------------------------------------------------------
(* acceptance predicates; each returns the set of counterexample records   *)
Judgeable(ev) == ev.out = "ok" /\ ev.exact /\ OtherAux(ev) = {}

BadFeas(ev) == {env \in Envs(ev) : SatSrc(ev, env) # ExistsAux(ev, env)}
BadObj(ev) == IF ev.sense \notin {"min", "max"} THEN {}
   ELSE {env \in Envs(ev) : SatSrc(ev, env) /\
            LET b == Best(ev, env) IN ~(b.st = "opt" /\ b.v = Eval(ev.obj, env))}
\* C07a: every source-feasible sample lies inside the published ranges
BadRange(ev) == {env \in Envs(ev) : SatSrc(ev, env) /\ ~FixedOk(ev, env)}

---------------------------------------------------------------------------
(* C08: structure of the output (ev.shape is observable for every successful *)
(* compile, also when the numbers themselves cannot cross to TLC) and the    *)
(* shape of the allowed errors                                               *)
Rng(s) == {s[i] : i \in 1..Len(s)}
SrcNames(ev) == {ev.cons[i].name : i \in 1..Len(ev.cons)} \ {""}
SrcVars(ev) == VarsOf(ev.obj) \cup UNION {VarsOf(ev.cons[i].lhs) \cup
                  (IF ev.cons[i].assert THEN {} ELSE VarsOf(ev.cons[i].rhs)) : i \in 1..Len(ev.cons)}
Declared(ev) == {ev.sdom[i].name : i \in 1..Len(ev.sdom)}
If(c, what) == IF c THEN {what} ELSE {}
IllFormed(ev) ==
   LET sh == ev.shape
       n  == Len(sh.names)
       rn == sh.rownames
       m  == Len(rn)
   IN  If(\E i \in 1..(n - 1) : sh.rank[i] >= sh.rank[i + 1], "variable list not sorted and duplicate-free")
       \cup If(Rng(sh.domkeys) # Rng(sh.names) \/ Len(sh.domkeys) # n, "domain key set differs from variable list")
       \cup If(~(SrcVars(ev) \subseteq Rng(sh.names)), "a variable of the source is missing")
       \cup If(\E i \in 1..Len(sh.rowlens) : sh.rowlens[i] # n, "row without exactly one coefficient per variable")
       \cup If(sh.objlen # n, "objective without exactly one coefficient per variable")
       \cup If(Len(sh.nonfinite) > 0, "non-finite number")
       \cup If(\E i, j \in 1..m : i < j /\ rn[i].name # "" /\ rn[i].name = rn[j].name, "duplicate row name")
       \cup If(\E i \in 1..m : rn[i].name # "" /\ rn[i].name \notin SrcNames(ev)
                   /\ ~(rn[i].k >= 2 /\ rn[i].base \in SrcNames(ev)), "row name not derived from a user name")
       \cup If(\E i \in 1..m : rn[i].name # "" /\ rn[i].name \notin SrcNames(ev)
                   /\ ~(\E j \in 1..(i - 1) : rn[j].name = rn[i].base), "first use of a user name not preserved")
       \cup If(sh.sense # ev.sense, "optimisation sense changed")
       \* auxiliary names cannot collide with user names: the same model with its $-named user variables
       \* renamed to plain names compiles to as many variables (or this one is refused)
       \cup If("plain" \in DOMAIN ev /\ ev.plain.out = "ok" /\ ev.plain.nvars # n, "an auxiliary shares its name with a user variable (renaming the user variable changes the number of variables)")
ErrKinds == {"NonLinearExpression", "DivisionByZero", "EmptyAggregation", "VarAlreadyDeclared",
             "UnimplementedExpression", "NonBinaryLogicOperand", "MissingFiniteBounds",
             "NonFiniteConstant", "InvalidDomain", "UndeclaredVariable", "LaterKind"}
\* a declared range that is not a domain: minimum above maximum, or a NonNegativeReal starting below zero
InvalidDom(d) == \/ (d.lo.inf = 0 /\ d.hi.inf = 0 /\ d.lo.n * d.hi.d > d.hi.n * d.lo.d)
                 \/ (d.kind = "nnreal" /\ d.lo.inf = 0 /\ d.lo.n < 0)
                 \/ d.lo.inf = 1 \/ d.hi.inf = -1
HasInfSide(ev, nm) == \E i \in 1..Len(ev.sdom) : ev.sdom[i].name = nm /\ (ev.sdom[i].lo.inf # 0 \/ ev.sdom[i].hi.inf # 0)
BadErr(ev) ==
   If(ev.err.kind \notin ErrKinds, "unstructured error")
   \cup If(ev.err.kind = "VarAlreadyDeclared" /\ ev.err.name \notin Declared(ev), "auxiliary clash without a user variable of that name")
   \cup If(ev.err.kind = "InvalidDomain" /\ ~\E i \in 1..Len(ev.sdom) : ev.sdom[i].name = ev.err.name /\ InvalidDom(ev.sdom[i]),
           "invalid-domain error for a variable whose declared range is a domain")
   \cup If(ev.err.kind = "UndeclaredVariable" /\ (ev.err.name \in Declared(ev) \/ ev.err.name \notin SrcVars(ev)),
           "undeclared-variable error for a variable that is declared, or that the model does not use")
   \cup If(ev.err.kind = "NonFiniteConstant" /\ ev.srcfinite,
           "non-finite constant although every source constant is finite: an underivable bound must be reported as missing bounds")
   \cup If(ev.err.kind = "MissingFiniteBounds" /\
           (\E v \in Rng(ev.err.variables) : v \notin Rng(ev.err.exprvars) \/ (v \in Declared(ev) /\ ~HasInfSide(ev, v))),
           "missing-bounds error names a variable that is bounded or not in the expression")
   \* an expression without a finite range contains a variable without one: the error must name at least one
   \cup If(ev.err.kind = "MissingFiniteBounds" /\ Len(ev.err.variables) = 0 /\ Len(ev.err.exprvars) > 0,
           "missing-bounds error names no variable although the expression contains variables")
CheckWF(ev) ==
   LET bad == CASE ev.out = "ok" -> IllFormed(ev) [] ev.out = "err" -> BadErr(ev)
                [] ev.out = "panic" -> {"panic"} [] OTHER -> {}
   IN  IF bad = {} THEN TRUE ELSE PrintT(<<"REJECT", "C08", ev.id, CHOOSE b \in bad : TRUE, ToJson(bad)>>)

Report(p, ev, bad, what) ==
   IF bad = {} THEN TRUE
   ELSE PrintT(<<"REJECT", p, ev.id, what, ToJson(CHOOSE e \in bad : TRUE)>>)

Stat(ev) == LET es == Envs(ev)
                nf == Cardinality({env \in es : SatSrc(ev, env)})
            IN  PrintT(<<"STAT", ev.id, Cardinality(es), nf,
                         Len(BoolAux(ev)), Len(ContAux(ev))>>)

\* C10 (division kept): a division whose denominator is zero somewhere on the sample grid, or whose value
\* depends on the variables, is diagnosed -- a model that contains one is never compiled, whatever surrounds
\* the division (a zero factor, a deciding logic constant, a min / max operand another operand dominates,
\* a logic comparison that holds for both truth values)
RECURSIVE BadDens(_, _)
KidsOf(e) == IF e.op \in {"num", "var"} THEN {}
             ELSE IF "args" \in DOMAIN e THEN {e.args[i] : i \in 1..Len(e.args)}
             ELSE IF "b" \in DOMAIN e THEN {e.a, e.b} ELSE {e.a}
IsBadDen(d, ev) == LET vals == {Eval(d, env) : env \in Envs(ev)} IN
                   Cardinality(vals) > 1 \/ \E v \in vals : ~IsDef(v) \/ RZero(v)
BadDens(e, ev) == (IF e.op = "div" /\ IsBadDen(e.b, ev) THEN {e.b} ELSE {}) \cup UNION {BadDens(k, ev) : k \in KidsOf(e)}
SrcBadDens(ev) == BadDens(ev.obj, ev) \cup UNION {BadDens(ev.cons[i].lhs, ev) \cup
                     (IF ev.cons[i].assert THEN {} ELSE BadDens(ev.cons[i].rhs, ev)) : i \in 1..Len(ev.cons)}
CheckDiv(ev) ==
   IF ev.out = "ok" /\ "obj" \in DOMAIN ev /\ SrcBadDens(ev) # {}
   THEN PrintT(<<"REJECT", "C10", ev.id, "a division by zero or by a non-constant was compiled away", ToJson(CHOOSE d \in SrcBadDens(ev) : TRUE)>>)
   ELSE TRUE

\* C10 (twins): two spellings of one model are accepted or rejected together
TwinCheck(ev) ==
   IF (ev.outa = "ok") = (ev.outb = "ok") THEN PrintT(<<"TWIN", ev.id, ev.outa, ev.outb>>)
   ELSE PrintT(<<"REJECT", "C10", ev.id, "one spelling is rejected (" \o ev.erra \o ev.errb \o ") and the other accepted", "">>)

Check(ev) ==
   IF "twin" \in DOMAIN ev THEN TwinCheck(ev) ELSE
   /\ (Has("C08") => CheckWF(ev))
   /\ (Has("DIV") => CheckDiv(ev))
   \* (a compiled model whose source uses a variable it does not declare has no meaning to compare with:
   \* CheckWF has reported it)
   /\ IF ~Judgeable(ev) \/ ~(SrcVars(ev) \subseteq Declared(ev)) THEN PrintT(<<"SKIP", ev.id, ev.out>>)
      ELSE /\ (Has("C01") => Report("C01", ev, BadFeas(ev), "projection"))
           /\ (Has("C02") => Report("C02", ev, BadObj(ev), "objective"))
           /\ (Has("C07") => Report("C07", ev, BadRange(ev), "range"))
           /\ (Has("STA") => Stat(ev))

Init == l = Start
Next == l <= Len(Rec) /\ Check(Rec[l]) /\ l' = l + 1
Spec == Init /\ [][Next]_vars
Accepted == IF TLCGet("stats").diameter = Len(Rec) - Start + 2
            THEN PrintT(<<"ACCEPTED", Len(Rec) - Start + 1>>)
            ELSE PrintT(<<"INCOMPLETE", TLCGet("stats").diameter>>) /\ FALSE
=============================================================================
