SPECIFICATION Spec
CONSTANT Family = "A"
INVARIANT Emit
CHECK_DEADLOCK FALSE
