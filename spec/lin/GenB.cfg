SPECIFICATION Spec
CONSTANT Family = "B"
INVARIANT Emit
CHECK_DEADLOCK FALSE
