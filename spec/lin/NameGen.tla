-------------------------------- MODULE NameGen --------------------------------
(* Generator machine for the naming of compiled rows (C08).  A program is a     *)
(* list of up to MaxLen constraints; each has a user-written name (or none) and *)
(* a kind that fixes how many rows it compiles to: one (a comparison), none (a  *)
(* tautology: the assertion `b or true`), two (the assertion of a conjunction   *)
(* of two disjunctions).  The names are chosen so that user-written names       *)
(* collide with each other and with the suffixes the compiler generates         *)
(* (cap, cap__2, cap__3).  Every terminal state is one source text together     *)
(* with what the specification needs to know about it: name and row count of    *)
(* every constraint, in order.                                                  *)
EXTENDS Integers, Sequences, FiniteSets, TLC, Json
CONSTANT MaxLen
Names == {"", "cap", "cap__2", "cap__3", "lim"}
Kinds == {"one", "zero", "two"}
VARIABLES cons, phase
vars == <<cons, phase>>
Init == cons = <<>> /\ phase = "add"
Add == phase = "add" /\ Len(cons) < MaxLen /\ (\E n \in Names, k \in Kinds : cons' = Append(cons, [name |-> n, kind |-> k])) /\ UNCHANGED phase
Finish == phase = "add" /\ Len(cons) >= 1 /\ phase' = "done" /\ UNCHANGED cons
Next == Add \/ Finish
Spec == Init /\ [][Next]_vars

Emits(k) == CASE k = "one" -> 1 [] k = "zero" -> 0 [] k = "two" -> 2
Body(c, i) == CASE c.kind = "one" -> "x + " \o ToString(i) \o " * y <= " \o ToString(10 + i)
                [] c.kind = "zero" -> "b or true"
                [] c.kind = "two" -> "(a or b) and (b or c)"
RECURSIVE Rows(_)
Rows(i) == IF i > Len(cons) THEN ""
           ELSE "    " \o (IF cons[i].name = "" THEN "" ELSE cons[i].name \o ": ") \o Body(cons[i], i) \o "\n" \o Rows(i + 1)
Text == "max x + y\ns.t.\n" \o Rows(1) \o "    x + y <= 9\ndefine\n    x, y as Real(0, 5)\n    a, b, c as Boolean"
Emit == phase = "done" => PrintT(<<"CASE", ToJson([text |-> Text, cons |-> [i \in 1..Len(cons) |-> [name |-> cons[i].name, emits |-> Emits(cons[i].kind)]]])>>)
=============================================================================
