SPECIFICATION Spec
CONSTANT Family = "E"
INVARIANT Emit
CHECK_DEADLOCK FALSE
