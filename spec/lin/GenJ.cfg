SPECIFICATION Spec
CONSTANT Family = "J"
INVARIANT Emit
CHECK_DEADLOCK FALSE
