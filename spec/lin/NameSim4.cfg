SPECIFICATION Spec
CONSTANT MaxLen = 5
INVARIANT Emit
CHECK_DEADLOCK FALSE
