SPECIFICATION Spec
CONSTANT MaxLen = 3
INVARIANT Emit
CHECK_DEADLOCK FALSE
