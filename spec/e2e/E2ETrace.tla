------------------------------- MODULE E2ETrace -------------------------------
(* Trace specification for the one-shot entry point (C03):                    *)
(*     Solve : source text -> solution | infeasible | error                   *)
(* One event = one abstract model produced by the generator machine, the text *)
(* rendered from it (minimal parentheses by the documented precedence table,  *)
(* keyword or symbolic spelling, implicit multiplication, named rows) and     *)
(* what RoocSolver::solve_using(auto_solver) returned for that text.          *)
(* The reference interpreter is Sem!Eval on the ABSTRACT model, with the      *)
(* declared (integer / Boolean) domains enumerated completely:                *)
(*   solution  <=>  some assignment satisfies the model                       *)
(*   the returned values are in their domains and satisfy every constraint    *)
(*   the reported objective is the objective at the returned values, and no   *)
(*   satisfying assignment is strictly better                                 *)
(*   unsatisfiable  =>  the solver's Infeasible verdict (not a compile error) *)
EXTENDS Judge, Json, IOUtils

Rec == ndJsonDeserialize(IOEnv.TRACE)
Start == atoi(IOEnv.START)
VARIABLE l
vars == <<l>>

\* family R: the same models with their integer variables declared as bounded Reals (Judge!JudgeReal)
RealDom(ev) == "realdom" \in DOMAIN ev /\ ev.realdom
Problems(ev) == IF RealDom(ev) THEN JudgeReal(ev, ev) ELSE Judge(ev, ev)

\* the operand-matrix family contains products and quotients of variables and divisions by zero: the
\* compiler rejects those (not linear); such an event says nothing about answers and is only counted
NotLinear(ev) == "may_reject" \in DOMAIN ev /\ ev.out = "linearization_error"
Check(ev) ==
   LET pb == IF NotLinear(ev) THEN {} ELSE Problems(ev) IN
   IF NotLinear(ev) THEN PrintT(<<"STAT", ev.id, "not-linear", 0, 0>>)
   ELSE IF pb = {} /\ RealDom(ev) THEN PrintT(<<"STAT", ev.id, ev.out, Cardinality(GridEnvs(ev)), Cardinality({env \in GridEnvs(ev) : Sat(ev, env)})>>)
   ELSE IF pb = {} THEN PrintT(<<"STAT", ev.id, ev.out, Cardinality(Envs(ev)), Cardinality({env \in Envs(ev) : Sat(ev, env)})>>)
   ELSE PrintT(<<"REJECT", "C03", ev.id, CHOOSE x \in pb : TRUE, ToJson(pb)>>)

Init == l = Start
Next == l <= Len(Rec) /\ Check(Rec[l]) /\ l' = l + 1
Spec == Init /\ [][Next]_vars
Accepted == IF TLCGet("stats").diameter = Len(Rec) - Start + 2
            THEN PrintT(<<"ACCEPTED", Len(Rec) - Start + 1>>)
            ELSE PrintT(<<"INCOMPLETE", TLCGet("stats").diameter>>) /\ FALSE
=============================================================================
