------------------------------- MODULE E2ETrace -------------------------------
(* Trace specification for the one-shot entry point (C03):                    *)
(*     Solve : source text -> solution | infeasible | error                   *)
(* One event = one abstract model produced by the generator machine, the text *)
(* rendered from it (minimal parentheses by the documented precedence table,  *)
(* keyword or symbolic spelling, implicit multiplication, named rows) and     *)
(* what RoocSolver::solve_using(auto_solver) returned for that text.          *)
(* The reference interpreter is Sem!Eval on the ABSTRACT model, with the      *)
(* declared (integer / Boolean) domains enumerated completely:                *)
(*   solution  <=>  some assignment satisfies the model                       *)
(*   the returned values are in their domains and satisfy every constraint    *)
(*   the reported objective is the objective at the returned values, and no   *)
(*   satisfying assignment is strictly better                                 *)
(*   unsatisfiable  =>  the solver's Infeasible verdict (not a compile error) *)
EXTENDS Sem, Json, IOUtils, TLC

Rec == ndJsonDeserialize(IOEnv.TRACE)
Start == atoi(IOEnv.START)
VARIABLE l
vars == <<l>>

Used(ev) == VarsOf(ev.obj) \cup UNION {VarsOf(ev.cons[i].lhs) \cup (IF ev.cons[i].assert THEN {} ELSE VarsOf(ev.cons[i].rhs)) : i \in 1..Len(ev.cons)}
DeclOf(ev, nm) == ev.dom[CHOOSE i \in 1..Len(ev.dom) : ev.dom[i].name = nm]
DomVals(d) == IF d.kind = "bool" THEN {R(0), R(1)} ELSE {R(i) : i \in (d.lo.n \div d.lo.d)..(d.hi.n \div d.hi.d)}
Envs(ev) == {e \in [Used(ev) -> UNION {DomVals(DeclOf(ev, nm)) : nm \in Used(ev)}] : \A nm \in Used(ev) : e[nm] \in DomVals(DeclOf(ev, nm))}
Sat(ev, env) == \A i \in 1..Len(ev.cons) : SatCon(ev.cons[i], env)
Better(ev, v, w) == IF ev.sense = "min" THEN RLt(v, w) ELSE RLt(w, v)     \* v strictly better than w

PointOf(ev) == [nm \in Used(ev) |->
   LET S == {j \in 1..Len(ev.point) : ev.point[j].name = nm} IN
   IF Cardinality(S) = 1 /\ ev.point[CHOOSE j \in S : TRUE].v.snap
   THEN LET o == ev.point[CHOOSE j \in S : TRUE].v IN Norm(o.n, o.d) ELSE Undef]
Problems(ev) ==
   LET sat == {env \in Envs(ev) : Sat(ev, env)}
       If(c, w) == IF c THEN {w} ELSE {}
   IN
   CASE ev.out = "solution" ->
          LET pt == PointOf(ev) IN
          If(sat = {}, "a solution is returned although no assignment satisfies the text")
          \cup If(\E nm \in Used(ev) : ~IsDef(pt[nm]), "a used variable has no (exact) value in the solution")
          \cup (IF \A nm \in Used(ev) : IsDef(pt[nm]) THEN
                  If(\E nm \in Used(ev) : pt[nm] \notin DomVals(DeclOf(ev, nm)), "a returned value is outside its declared domain")
                  \cup If(~Sat(ev, pt), "the returned values violate a constraint of the text")
                  \cup If(ev.sense # "sat" /\ (~ev.value.snap \/ Norm(ev.value.n, ev.value.d) # Eval(ev.obj, pt)),
                          "the reported objective is not the objective of the text at the returned values")
                  \cup If(ev.sense # "sat" /\ \E env \in sat : Better(ev, Eval(ev.obj, env), Eval(ev.obj, pt)),
                          "a satisfying assignment has a strictly better objective")
                ELSE {})
     [] ev.out = "solver_error" /\ ev.kind = "Infeasible" ->
          If(sat # {}, "infeasible reported although an assignment satisfies the text")
     [] ev.out = "solver_error" -> {"solver error " \o ev.kind \o " on a bounded model"}
     [] OTHER -> {"the generated program is rejected: " \o ev.out}

Check(ev) ==
   LET pb == Problems(ev) IN
   IF pb = {} THEN PrintT(<<"STAT", ev.id, ev.out, Cardinality(Envs(ev)), Cardinality({env \in Envs(ev) : Sat(ev, env)})>>)
   ELSE PrintT(<<"REJECT", "C03", ev.id, CHOOSE x \in pb : TRUE, ToJson(pb)>>)

Init == l = Start
Next == l <= Len(Rec) /\ Check(Rec[l]) /\ l' = l + 1
Spec == Init /\ [][Next]_vars
Accepted == IF TLCGet("stats").diameter = Len(Rec) - Start + 2
            THEN PrintT(<<"ACCEPTED", Len(Rec) - Start + 1>>)
            ELSE PrintT(<<"INCOMPLETE", TLCGet("stats").diameter>>) /\ FALSE
=============================================================================
