----------------------------- MODULE ChainsTrace -----------------------------
(* Trace specification for logic chains through the builder macros (C16).    *)
(* One event = one chain of Chains.tla and the expression tree each door      *)
(* made of it: C the `constraint!` macro (a logic assertion), X the `expr!`   *)
(* macro, T the text.  Accepted iff every door produced a tree and each tree  *)
(* has the value of the reference reading Pratt!Parse(tokens) at every        *)
(* assignment of the Boolean variables.                                       *)
EXTENDS Pratt, Sem, Json, IOUtils, TLC, FiniteSets
Rec == ndJsonDeserialize(IOEnv.TRACE)
Start == atoi(IOEnv.START)
VARIABLE l
vars == <<l>>
Names(ev) == {ev.tokens[i].s : i \in {j \in 1..Len(ev.tokens) : ev.tokens[j].k = "id"}}
Envs(ev) == [Names(ev) -> {R(0), R(1)}]
Doors == <<"C", "X", "T">>
Res(ev, d) == CASE d = "C" -> ev.C [] d = "X" -> ev.X [] d = "T" -> ev.T
Problems(ev) ==
   LET ref == Parse(ev.tokens).t IN
   UNION {IF Res(ev, Doors[i]).out # "ok" THEN {Doors[i] \o ": no expression tree (" \o Res(ev, Doors[i]).out \o ")"}
          ELSE IF \E env \in Envs(ev) : Eval(Res(ev, Doors[i]).tree, env) # Eval(ref, env)
               THEN {Doors[i] \o ": the chain is not grouped the way the language groups it"} ELSE {} : i \in 1..Len(Doors)}
Check(ev) ==
   IF ~WellFormed(ev.tokens) THEN PrintT(<<"REJECT", "C16", ev.id, "generator produced an ill-formed chain", ev.chain>>)
   ELSE LET pb == Problems(ev) IN
        IF pb = {} THEN PrintT(<<"STAT", ev.id, Len(ev.ops), Cardinality(Envs(ev))>>)
        ELSE PrintT(<<"REJECT", "C16", ev.id, CHOOSE x \in pb : TRUE, ev.chain>>)
Init == l = Start
Next == l <= Len(Rec) /\ Check(Rec[l]) /\ l' = l + 1
Spec == Init /\ [][Next]_vars
Accepted == IF TLCGet("stats").diameter = Len(Rec) - Start + 2
            THEN PrintT(<<"ACCEPTED", Len(Rec) - Start + 1>>)
            ELSE PrintT(<<"INCOMPLETE", TLCGet("stats").diameter>>) /\ FALSE
=============================================================================
