-------------------------------- MODULE Builder --------------------------------
(* The fluent model builder as a state machine (C16).  State: the constraint     *)
(* list accumulated so far and the objective (none / an objective id).  Calls:   *)
(*   With        append the next constraint                                      *)
(*   WithAll(k)  append the next k constraints in one call (k >= 0)              *)
(*   SetObj(o)   minimize / maximize / satisfy: replaces any earlier objective   *)
(*   IntoModel   finish (allowed once every constraint has been added)           *)
(* Invariant of the design: whatever the interleaving, the built model has the   *)
(* constraints in call order and the LAST objective set (Satisfy when none was). *)
(* Every terminal behaviour is printed as a call plan the harness executes       *)
(* against the real ModelBuilder, together with the objective the specification  *)
(* expects the built model to have.                                              *)
EXTENDS Integers, Sequences, FiniteSets, TLC, Json
CONSTANTS NCons, MaxCalls

Objs == {"real", "decoy", "sat"}
VARIABLES added, obj, calls, done
vars == <<added, obj, calls, done>>
Init == added = 0 /\ obj = "none" /\ calls = <<>> /\ done = FALSE
Can == ~done /\ Len(calls) < MaxCalls
With == Can /\ added < NCons /\ added' = added + 1 /\ calls' = Append(calls, [call |-> "with", n |-> 1, obj |-> ""]) /\ UNCHANGED <<obj, done>>
WithAll == Can /\ \E k \in 0..(NCons - added) : k # 1 /\ added' = added + k
               /\ calls' = Append(calls, [call |-> "with_all", n |-> k, obj |-> ""]) /\ UNCHANGED <<obj, done>>
SetObj == Can /\ \E o \in Objs : obj' = o /\ calls' = Append(calls, [call |-> "objective", n |-> 0, obj |-> o]) /\ UNCHANGED <<added, done>>
IntoModel == ~done /\ added = NCons /\ done' = TRUE /\ UNCHANGED <<added, obj, calls>>
Next == With \/ WithAll \/ SetObj \/ IntoModel
Spec == Init /\ [][Next]_vars

\* the objective of the built model
Expected == IF obj = "none" THEN "sat" ELSE obj
\* design invariant: constraints are added in order, never more than exist
TypeOK == added \in 0..NCons /\ obj \in Objs \cup {"none"}
Emit == done => PrintT(<<"CASE", ToJson([ncons |-> NCons, calls |-> calls, expected |-> Expected])>>)
=============================================================================
