SPECIFICATION Spec
CONSTANTS NCons = 0
 MaxCalls = 4
INVARIANT TypeOK
INVARIANT Emit
CHECK_DEADLOCK FALSE
