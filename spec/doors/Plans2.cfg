SPECIFICATION Spec
CONSTANTS NCons = 2
 MaxCalls = 4
INVARIANT TypeOK
INVARIANT Emit
CHECK_DEADLOCK FALSE
