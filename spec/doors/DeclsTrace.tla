------------------------------ MODULE DeclsTrace ------------------------------
(* Trace specification for declarations (C16).  One event = one declaration of    *)
(* Decls.tla with what each declaration door of the real system declared:         *)
(*   M  the vars! macro    F  add_var / add_vars    T  the define section          *)
(* Accepted iff every door declares exactly the names, kinds and ranges the        *)
(* specification says (ev.declared), or - for a declaration that is not a domain -  *)
(* every door refuses it.                                                          *)
EXTENDS Integers, Sequences, FiniteSets, TLC, Json, IOUtils
Rec == ndJsonDeserialize(IOEnv.TRACE)
Start == atoi(IOEnv.START)
VARIABLE l
vars == <<l>>
SameB(a, b) == a.inf = b.inf /\ (a.inf # 0 \/ a.n * b.d = b.n * a.d)
SameDecl(got, want) == Len(got) = Len(want) /\ \A i \in 1..Len(want) :
                          got[i].name = want[i].name /\ got[i].kind = want[i].kind /\ SameB(got[i].lo, want[i].lo) /\ SameB(got[i].hi, want[i].hi)
Door(ev, d) == CASE d = "M" -> ev.M [] d = "F" -> ev.F [] d = "T" -> ev.T
DoorName(d) == CASE d = "M" -> "the vars! macro" [] d = "F" -> "add_var / add_vars" [] d = "T" -> "the define section"
Problems(ev) ==
   UNION {LET r == Door(ev, d) IN
          IF ev.valid THEN
             (IF r.out # "ok" THEN {DoorName(d) \o " refuses a valid declaration"}
              ELSE IF ~SameDecl(r.decl, ev.declared) THEN {DoorName(d) \o " declares other names, kinds or ranges than written"} ELSE {})
          ELSE (IF r.out = "ok" THEN {DoorName(d) \o " accepts a declaration that is not a domain"} ELSE {})
          : d \in {"M", "F", "T"}}
Check(ev) ==
   LET pb == Problems(ev) IN
   IF pb = {} THEN PrintT(<<"STAT", ev.id, ev.kind, ev.form, IF ev.valid THEN 1 ELSE 0>>)
   ELSE PrintT(<<"REJECT", "C16", ev.id, CHOOSE x \in pb : TRUE, ToJson(pb)>>)
Init == l = Start
Next == l <= Len(Rec) /\ Check(Rec[l]) /\ l' = l + 1
Spec == Init /\ [][Next]_vars
Accepted == IF TLCGet("stats").diameter = Len(Rec) - Start + 2
            THEN PrintT(<<"ACCEPTED", Len(Rec) - Start + 1>>)
            ELSE PrintT(<<"INCOMPLETE", TLCGet("stats").diameter>>) /\ FALSE
=============================================================================
