-------------------------------- MODULE Chains --------------------------------
(* Chains of the two lowest-precedence logic operators through the builder's     *)
(* macros (C16): `constraint!(a <-> b -> c)` and `expr!(...)` read a chain of     *)
(* -> and <-> written without parentheses, and so does the text language         *)
(* (`a <-> b -> c`).  The machine picks the operators of a chain (1 to 3) and     *)
(* the form of every operand (a Boolean variable, its negation, a parenthesised  *)
(* conjunction) and states the token string; what the chain MEANS is the reading *)
(* of module Pratt (-> groups to the right, <-> to the left, both on one level).  *)
(* The macro arms are fixed at compile time in the harness: one arm per operator *)
(* sequence, the operands are passed as expressions.                             *)
EXTENDS Integers, Sequences, FiniteSets, TLC, Json
Ops == {"implies", "iff"}
Forms == {"v", "nv", "and"}
Names == <<"a", "b", "c", "d">>
VARIABLES ops, forms, phase
vars == <<ops, forms, phase>>
Init == ops = <<>> /\ forms = <<>> /\ phase = "ops"
AddOp == phase = "ops" /\ Len(ops) < 3 /\ (\E o \in Ops : ops' = Append(ops, o)) /\ UNCHANGED <<forms, phase>>
EndOps == phase = "ops" /\ Len(ops) >= 1 /\ phase' = "forms" /\ UNCHANGED <<ops, forms>>
AddForm == phase = "forms" /\ Len(forms) <= Len(ops) /\ (\E f \in Forms : forms' = Append(forms, f)) /\ UNCHANGED <<ops, phase>>
Done == phase = "forms" /\ Len(forms) = Len(ops) + 1 /\ phase' = "done" /\ UNCHANGED <<ops, forms>>
Next == AddOp \/ EndOps \/ AddForm \/ Done
Spec == Init /\ [][Next]_vars

T(k, s) == [k |-> k, s |-> s, v |-> 0]
OperandToks(i) == CASE forms[i] = "v" -> <<T("id", Names[i])>>
                    [] forms[i] = "nv" -> <<T("un", "not"), T("id", Names[i])>>
                    [] forms[i] = "and" -> <<T("lp", "("), T("id", Names[i]), T("op", "and"), T("id", "e"), T("rp", ")")>>
OperandText(i) == CASE forms[i] = "v" -> Names[i] [] forms[i] = "nv" -> "!" \o Names[i] [] forms[i] = "and" -> "(" \o Names[i] \o " and e)"
OpText(o) == IF o = "implies" THEN " -> " ELSE " <-> "
RECURSIVE Toks(_)
Toks(i) == IF i > Len(forms) THEN <<>> ELSE OperandToks(i) \o (IF i <= Len(ops) THEN <<T("op", ops[i])>> ELSE <<>>) \o Toks(i + 1)
RECURSIVE Txt(_)
Txt(i) == IF i > Len(forms) THEN "" ELSE OperandText(i) \o (IF i <= Len(ops) THEN OpText(ops[i]) ELSE "") \o Txt(i + 1)
Program == "max a + b + c + d + e\ns.t.\n    " \o Txt(1) \o "\ndefine\n    a, b, c, d, e as Boolean"
Emit == phase = "done" => PrintT(<<"CASE", ToJson([ops |-> ops, forms |-> forms, tokens |-> Toks(1), chain |-> Txt(1), text |-> Program])>>)
=============================================================================
