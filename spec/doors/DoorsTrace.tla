------------------------------- MODULE DoorsTrace -------------------------------
(* Trace specification for the front doors (C16).  One event = one abstract       *)
(* model (the model the Builder machine says a call plan builds) and what each    *)
(* door of the real system made of it:                                            *)
(*   B builder following the call plan (every operand an Expr, constraints by   *)
(*   constructor)   N the same plan written the way a user would: the most       *)
(*   specific operator overload for handles / integer / float / Boolean literals,  *)
(*   list helpers over handles, sum(), constraint! macros   T text   K text with constants through   *)
(*   the API   P staged pipes   S one-shot solver   M the builder through the     *)
(*   MicroLP solver object (solve_with(Microlp::new())) instead of Auto           *)
(* Accepted iff                                                                   *)
(*  - every door's answer is right for the abstract model (Judge: satisfiable iff *)
(*    solution, returned values feasible, reported objective = objective at the   *)
(*    values = optimum, unsatisfiable iff Infeasible) -- hence all doors agree    *)
(*  - doors whose compiled Models are identical produce the same linear rows,     *)
(*    row for row (names, relation, right-hand side, coefficients per variable    *)
(*    name); variables the builder keeps although unused have zero coefficients   *)
(*  - builder read-backs agree: value by handle = typed value by handle = value   *)
(*    by name; eval(objective) = reported objective = Eval(objective, values);    *)
(*    eval of each constraint side = Eval of that side; a declared-but-unused     *)
(*    variable resolves to a value inside its domain                              *)
EXTENDS Judge, Json, IOUtils

Rec == ndJsonDeserialize(IOEnv.TRACE)
Start == atoi(IOEnv.START)
VARIABLE l
vars == <<l>>

NumEq(x, y) == (x.s = 0 /\ y.s = 0) \/ (x.s = y.s /\ x.m = y.m)
IdxOf(lm, nm) == {i \in 1..Len(lm.vars) : lm.vars[i].name = nm}
Names(lm) == {lm.vars[i].name : i \in 1..Len(lm.vars)}
CoefOf(lm, row, nm) == LET S == IdxOf(lm, nm) IN IF S = {} THEN [s |-> 0, m |-> <<0, 0, 0>>] ELSE row.a[CHOOSE i \in S : TRUE]
ObjOf(lm, nm) == LET S == IdxOf(lm, nm) IN IF S = {} THEN [s |-> 0, m |-> <<0, 0, 0>>] ELSE lm.obj[CHOOSE i \in S : TRUE]
SameRows(a, b) ==
   /\ Len(a.rows) = Len(b.rows)
   /\ \A k \in 1..Len(a.rows) : /\ a.rows[k].cmp = b.rows[k].cmp /\ a.rows[k].name = b.rows[k].name /\ NumEq(a.rows[k].b, b.rows[k].b)
                                /\ \A nm \in Names(a) \cup Names(b) : NumEq(CoefOf(a, a.rows[k], nm), CoefOf(b, b.rows[k], nm))
   /\ a.sense = b.sense /\ (a.sense # "sat" => NumEq(a.off, b.off) /\ \A nm \in Names(a) \cup Names(b) : NumEq(ObjOf(a, nm), ObjOf(b, nm)))
   /\ \A nm \in Names(a) \cap Names(b) :
        LET va == a.vars[CHOOSE i \in IdxOf(a, nm) : TRUE]
            vb == b.vars[CHOOSE i \in IdxOf(b, nm) : TRUE]
        IN  va.kind = vb.kind /\ NumEq(va.lo, vb.lo) /\ NumEq(va.hi, vb.hi)

\* identical expression trees: sense, objective tree and constraints (names, trees, relations); the
\* declaration lists differ by construction (the builder keeps every declared variable)
SameTrees(m, n) == DOMAIN m # {} /\ DOMAIN n # {} /\ m.sense = n.sense /\ m.obj = n.obj /\ m.cons = n.cons
Doors == <<"B", "N", "T", "K", "P", "S", "M">>
Res(ev, d) == CASE d = "B" -> ev.B [] d = "N" -> ev.N [] d = "T" -> ev.T [] d = "K" -> ev.K [] d = "P" -> ev.P [] d = "S" -> ev.S [] d = "M" -> ev.M
ValOf(pt, nm) == LET S == {j \in 1..Len(pt) : pt[j].name = nm} IN
                 IF S = {} THEN [has |-> FALSE] ELSE pt[CHOOSE j \in S : TRUE]
ObsEq(x, y) == x.snap = y.snap /\ x.n = y.n /\ x.d = y.d /\ x.c = y.c
AllNames(ev) == {ev.dom[i].name : i \in 1..Len(ev.dom)}
ReadBackProblems(ev, b) ==
   LET 
       If(c, w) == IF c THEN {w} ELSE {}
   IN
   IF b.out # "solution" THEN {}
   ELSE
      If(\E nm \in AllNames(ev) \cup {"spare"} : ~ValOf(b.point, nm).has, "a builder handle does not resolve to a value")
      \cup If(\E nm \in AllNames(ev) \cup {"spare"} : ValOf(b.point, nm).has /\
                (~ValOf(b.typed, nm).has \/ ~ValOf(b.byname, nm).has
                 \/ ~ObsEq(ValOf(b.point, nm).v, ValOf(b.typed, nm).v) \/ ~ObsEq(ValOf(b.point, nm).v, ValOf(b.byname, nm).v)),
              "value by handle, typed value by handle and value by name differ")
      \cup If(LET sp == ValOf(b.point, "spare") IN sp.has /\ ~(sp.v.snap /\ sp.v.d = 1 /\ sp.v.n >= 2 /\ sp.v.n <= 5),
              "the declared-but-unused variable resolves outside its domain")
      \cup If(\E i \in 1..Len(ev.dom) : LET o == ValOf(b.point, ev.dom[i].name) IN
                 o.has /\ ~(o.v.snap /\ Norm(o.v.n, o.v.d) \in DomVals(ev.dom[i])), "a builder variable resolves outside its domain")
      \cup (IF \A nm \in Used(ev) : IsDef(PointOf(ev, b)[nm]) THEN
              LET pt == PointOf(ev, b) IN
              If(ev.sense # "sat" /\ (~b.eval_obj.snap \/ Norm(b.eval_obj.n, b.eval_obj.d) # Eval(ev.obj, pt)), "eval(objective) is not the objective at the solution")
              \cup If(\E i \in 1..Len(ev.cons) : LET o == b.evals[i] IN
                        ~o.lhs.snap \/ Norm(o.lhs.n, o.lhs.d) # Eval(ev.cons[i].lhs, pt)
                        \/ (~ev.cons[i].assert /\ (~o.rhs.snap \/ Norm(o.rhs.n, o.rhs.d) # Eval(ev.cons[i].rhs, pt))),
                      "eval(expression) disagrees with the language's semantics at the solution")
              \* expressions outside the model (probes over the model's variables), evaluated at the solution
              \cup If(\E i \in 1..Len(ev.probes) : i <= Len(b.probes) /\ VarsOf(ev.probes[i]) \subseteq Used(ev) /\
                        LET want == Eval(ev.probes[i], pt) IN
                        IsDef(want) /\ (~b.probes[i].snap \/ Norm(b.probes[i].n, b.probes[i].d) # want),
                      "eval(probe expression) disagrees with the language's semantics at the solution")
            ELSE {})
Compiled(r) == r.out \in {"solution", "solver_error"}
\* A program the text language's static typing refuses (a number, a numeric variable or an arithmetic
\* expression as a logic operand, a Boolean literal as a comparison side): the doors that run the type
\* checker (P, S) refuse it; a door that does not may refuse it too, but whatever it compiles has the
\* meaning the language gives it (non-zero is true), so a door that answers answers right
IllTyped(ev) == "illtyped" \in DOMAIN ev /\ ev.illtyped
Problems(ev) ==
   IF IllTyped(ev) THEN
      UNION {{Doors[i] \o ": " \o p : p \in Judge(ev, Res(ev, Doors[i]))} : i \in {j \in 1..Len(Doors) : Compiled(Res(ev, Doors[j]))}}
      \cup ReadBackProblems(ev, ev.B) \cup {"N: " \o p : p \in ReadBackProblems(ev, ev.N)}
   ELSE
   IF ~Compiled(ev.T) THEN
      \* the text door does not compile the program (not linear, division by a zero constant, ...):
      \* no door may produce a verdict for it
      {Doors[i] \o ": produces a verdict for a program the text door rejects (" \o ev.T.out \o ")" : i \in {j \in 1..Len(Doors) : Compiled(Res(ev, Doors[j]))}}
   ELSE
   UNION {{Doors[i] \o ": " \o p : p \in Judge(ev, Res(ev, Doors[i]))} : i \in 1..Len(Doors)}
   \cup UNION {IF Res(ev, d).has_lm /\ Res(ev, bd).has_lm /\ SameTrees(Res(ev, d).model, Res(ev, bd).model) /\ ~SameRows(Res(ev, bd).lm, Res(ev, d).lm)
               THEN {bd \o " and " \o d \o " compile identical expression trees to different rows"} ELSE {} : <<bd, d>> \in {"B", "N"} \X {"T", "K"}}
   \cup (IF ev.B.has_lm /\ ev.N.has_lm /\ SameTrees(ev.B.model, ev.N.model) /\ ~SameRows(ev.B.lm, ev.N.lm)
         THEN {"B and N compile identical expression trees to different rows"} ELSE {})
   \cup (IF ev.T.has_lm /\ ev.P.has_lm /\ ~SameRows(ev.T.lm, ev.P.lm) THEN {"the pipe runner and the parser+linearizer compile the same text to different rows"} ELSE {})
   \cup ReadBackProblems(ev, ev.B) \cup {"N: " \o p : p \in ReadBackProblems(ev, ev.N)}
   \* a model without an objective has no optimum to compare, but every door reports the same value for it
   \cup (IF ev.sense = "sat" /\ \E i, j \in 1..Len(Doors) : Res(ev, Doors[i]).out = "solution" /\ Res(ev, Doors[j]).out = "solution"
                                    /\ ~ObsEq(Res(ev, Doors[i]).value, Res(ev, Doors[j]).value)
         THEN {"the doors report different values for a model without an objective"} ELSE {})

Check(ev) ==
   LET pb == Problems(ev) IN
   IF pb = {} /\ IllTyped(ev) THEN PrintT(<<"STAT", ev.id, "illtyped", 0, Len(ev.plan.calls), 0, Cardinality({j \in 1..Len(Doors) : Compiled(Res(ev, Doors[j]))})>>)
   ELSE IF pb = {} /\ ~Compiled(ev.T) THEN PrintT(<<"STAT", ev.id, "rejected-by-all", 0, Len(ev.plan.calls), 0>>)
   ELSE IF pb = {} THEN PrintT(<<"STAT", ev.id, ev.B.out, IF ev.B.has_lm /\ ev.T.has_lm /\ SameTrees(ev.B.model, ev.T.model) THEN 1 ELSE 0, Len(ev.plan.calls),
                         IF ev.B.has_lm /\ ev.N.has_lm /\ SameTrees(ev.B.model, ev.N.model) THEN 1 ELSE 0>>)
   ELSE PrintT(<<"REJECT", "C16", ev.id, CHOOSE x \in pb : TRUE, ToJson(pb)>>)
Init == l = Start
Next == l <= Len(Rec) /\ Check(Rec[l]) /\ l' = l + 1
Spec == Init /\ [][Next]_vars
Accepted == IF TLCGet("stats").diameter = Len(Rec) - Start + 2
            THEN PrintT(<<"ACCEPTED", Len(Rec) - Start + 1>>)
            ELSE PrintT(<<"INCOMPLETE", TLCGet("stats").diameter>>) /\ FALSE
=============================================================================
