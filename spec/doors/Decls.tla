-------------------------------- MODULE Decls --------------------------------
(* Declarations through the three declaration doors (C16): the `vars!` macro,    *)
(* the methods add_var / add_vars, and the `define` section of the text.  The     *)
(* machine picks a domain kind, its bounds and a form (one variable, or an        *)
(* indexed family of N), and states what the declaration MEANS: the list of       *)
(* declared names with their kind and range (Declared).  Every door must declare  *)
(* exactly that, or all must refuse (a NonNegativeReal with a negative minimum    *)
(* is not a domain).                                                              *)
EXTENDS Integers, Sequences, FiniteSets, TLC, Json
Kinds == {"bool", "int", "real", "realfree", "nnreal", "nnrealfree"}
BoundPairs == {<<-1, 1>>, <<0, 2>>, <<2, 5>>, <<-3, -1>>}
Forms == {<<"scalar", 1>>, <<"array", 1>>, <<"array", 3>>}
VARIABLES kind, lo, hi, form, phase
vars == <<kind, lo, hi, form, phase>>
Init == kind = "bool" /\ lo = 0 /\ hi = 1 /\ form = <<"scalar", 1>> /\ phase = "kind"
Bounded(k) == k \in {"int", "real", "nnreal"}
PickKind == phase = "kind" /\ (\E k \in Kinds : kind' = k) /\ phase' = "bounds" /\ UNCHANGED <<lo, hi, form>>
PickBounds == phase = "bounds" /\ (IF Bounded(kind) THEN \E b \in BoundPairs : lo' = b[1] /\ hi' = b[2] ELSE UNCHANGED <<lo, hi>>)
              /\ phase' = "form" /\ UNCHANGED <<kind, form>>
PickForm == phase = "form" /\ (\E f \in Forms : form' = f) /\ phase' = "done" /\ UNCHANGED <<kind, lo, hi>>
Next == PickKind \/ PickBounds \/ PickForm
Spec == Init /\ [][Next]_vars

Fin(n) == [inf |-> 0, n |-> n, d |-> 1]
PInf == [inf |-> 1, n |-> 0, d |-> 1]
MInf == [inf |-> -1, n |-> 0, d |-> 1]
\* what one declared variable is
One(nm) == CASE kind = "bool" -> [name |-> nm, kind |-> "bool", lo |-> Fin(0), hi |-> Fin(1)]
             [] kind = "int" -> [name |-> nm, kind |-> "int", lo |-> Fin(lo), hi |-> Fin(hi)]
             [] kind = "real" -> [name |-> nm, kind |-> "real", lo |-> Fin(lo), hi |-> Fin(hi)]
             [] kind = "realfree" -> [name |-> nm, kind |-> "real", lo |-> MInf, hi |-> PInf]
             [] kind = "nnreal" -> [name |-> nm, kind |-> "nnreal", lo |-> Fin(lo), hi |-> Fin(hi)]
             [] kind = "nnrealfree" -> [name |-> nm, kind |-> "nnreal", lo |-> Fin(0), hi |-> PInf]
\* a NonNegativeReal whose minimum is negative is not a domain: every door refuses it
Valid == ~(kind = "nnreal" /\ lo < 0)
Names == IF form[1] = "scalar" THEN <<"x">> ELSE [i \in 1..form[2] |-> "x_" \o ToString(i - 1)]
Declared == [i \in 1..Len(Names) |-> One(Names[i])]
B(n) == ToString(n)
TypeText == CASE kind = "bool" -> "Boolean" [] kind = "int" -> "IntegerRange(" \o B(lo) \o ", " \o B(hi) \o ")"
              [] kind = "real" -> "Real(" \o B(lo) \o ", " \o B(hi) \o ")" [] kind = "realfree" -> "Real"
              [] kind = "nnreal" -> "NonNegativeReal(" \o B(lo) \o ", " \o B(hi) \o ")" [] kind = "nnrealfree" -> "NonNegativeReal"
Text == IF form[1] = "scalar"
        THEN "min x\ns.t.\n    x <= 9\ndefine\n    x as " \o TypeText
        ELSE "min sum(i in 0.." \o ToString(form[2]) \o ") { x_i }\ns.t.\n    x_0 <= 9\ndefine\n    x_i as " \o TypeText \o " for i in 0.." \o ToString(form[2])
Emit == phase = "done" => PrintT(<<"CASE", ToJson([kind |-> kind, lo |-> lo, hi |-> hi, form |-> form[1], n |-> form[2], text |-> Text,
                                                    valid |-> Valid, declared |-> Declared])>>)
=============================================================================
