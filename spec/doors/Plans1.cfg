SPECIFICATION Spec
CONSTANTS NCons = 1
 MaxCalls = 4
INVARIANT TypeOK
INVARIANT Emit
CHECK_DEADLOCK FALSE
