SPECIFICATION Spec
CONSTANT MaxRows = 2
INVARIANT Emit
CHECK_DEADLOCK FALSE
