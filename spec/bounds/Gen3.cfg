SPECIFICATION Spec
CONSTANT MaxRows = 3
INVARIANT Emit
CHECK_DEADLOCK FALSE
