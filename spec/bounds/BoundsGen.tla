------------------------------ MODULE BoundsGen ------------------------------
(* Generator machine for the bounds analyzer (C07): ordered sequences of up  *)
(* to MaxRows rows over x, y, z.  Row order matters (work-list order, step   *)
(* limit), so rows are a sequence.  Rows include chains that need several    *)
(* propagation rounds, non-dyadic coefficients (19/10, 3/10) that make       *)
(* propagated bounds inexact in floating point, piecewise rows whose reverse *)
(* rules are only partly safe, contradictions, and infinite declared sides.  *)
EXTENDS Integers, Sequences, FiniteSets, TLC, Json
CONSTANT MaxRows

Num(n, d) == [op |-> "num", n |-> n, d |-> d]
V(s) == [op |-> "var", name |-> s]
U(o, a) == [op |-> o, a |-> a]
B(o, a, b) == [op |-> o, a |-> a, b |-> b]
N2(o, a, b) == [op |-> o, args |-> <<a, b>>]
Fin(n, d) == [inf |-> 0, n |-> n, d |-> d]
PInf == [inf |-> 1, n |-> 0, d |-> 1]
MInf == [inf |-> -1, n |-> 0, d |-> 1]
Decl(nm, k, lo, hi) == [name |-> nm, kind |-> k, lo |-> lo, hi |-> hi]
Con(l, c, r) == [lhs |-> l, cmp |-> c, rhs |-> r, assert |-> FALSE, name |-> ""]
x == V("x")
y == V("y")
z == V("z")
Sc(n, d, v) == B("mul", Num(n, d), v)

Rows == {
   Con(B("add", x, y), "le", Num(2, 1)),
   Con(B("sub", x, y), "ge", Num(-1, 1)),
   Con(y, "le", x),
   Con(Sc(19, 10, x), "le", Num(19, 5)),
   Con(Sc(19, 10, y), "ge", Num(-19, 10)),
   Con(Sc(3, 10, y), "ge", Num(3, 10)),
   Con(B("add", Sc(3, 10, x), Sc(7, 10, z)), "le", Num(1, 1)),
   Con(x, "eq", Sc(2, 1, z)),
   Con(z, "ge", Num(1, 1)),
   Con(z, "le", Num(0, 1)),
   Con(B("add", x, z), "eq", Num(3, 1)),
   Con(Sc(-2, 1, x), "le", Num(4, 1)),
   Con(B("add", B("div", x, Num(2, 1)), B("div", y, Num(4, 1))), "le", Num(1, 1)),
   Con(B("sub", x, x), "le", Num(-1, 1)),
   Con(U("neg", B("sub", y, z)), "ge", Num(0, 1)),
   Con(U("abs", x), "le", Num(1, 1)),
   Con(U("abs", B("sub", x, y)), "le", Num(1, 1)),
   Con(U("abs", x), "ge", Num(1, 1)),
   Con(N2("max", x, y), "le", Num(1, 1)),
   Con(N2("max", x, y), "ge", Num(1, 1)),
   Con(N2("min", x, z), "ge", Num(0, 1)),
   Con(N2("min", x, z), "le", Num(-1, 1)),
   Con(B("sub", U("abs", y), z), "le", Num(0, 1)),
   Con(B("add", N2("max", x, Num(0, 1)), y), "le", Num(2, 1)),
   Con(Sc(-1, 2, N2("min", y, z)), "le", Num(1, 1)),
   Con(x, "ge", Num(-3, 2)),
   Con(B("sub", Sc(2, 1, y), x), "eq", Num(1, 1)) }

Doms == {
   <<Decl("x", "real", MInf, PInf), Decl("y", "int", Fin(-3, 1), Fin(3, 1)), Decl("z", "nnreal", Fin(0, 1), PInf)>>,
   <<Decl("x", "real", Fin(-3, 1), Fin(3, 1)), Decl("y", "real", MInf, PInf), Decl("z", "bool", Fin(0, 1), Fin(1, 1))>>,
   <<Decl("x", "int", Fin(-2, 1), Fin(4, 1)), Decl("y", "nnreal", Fin(0, 1), Fin(5, 2)), Decl("z", "real", MInf, Fin(2, 1))>> }

VARIABLES phase, dom, cons
vars == <<phase, dom, cons>>
Init == phase = "dom" /\ dom = <<>> /\ cons = <<>>
ChooseDom == phase = "dom" /\ (\E d \in Doms : dom' = d) /\ phase' = "rows" /\ UNCHANGED cons
AddRow == /\ phase = "rows" /\ Len(cons) < MaxRows
          /\ \E c \in Rows : (\A i \in 1..Len(cons) : cons[i] # c) /\ cons' = Append(cons, c)
          /\ UNCHANGED <<phase, dom>>
Finish == phase = "rows" /\ Len(cons) >= 1 /\ phase' = "done" /\ UNCHANGED <<dom, cons>>
Next == ChooseDom \/ AddRow \/ Finish
Spec == Init /\ [][Next]_vars
Case == [sense |-> "sat", obj |-> Num(0, 1), cons |-> cons, dom |-> dom]
Emit == phase = "done" => PrintT(<<"CASE", ToJson(Case)>>)
=============================================================================
