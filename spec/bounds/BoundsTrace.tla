----------------------------- MODULE BoundsTrace -----------------------------
(* Trace specification for the bounds analyzer (hook H1, property C07).     *)
(* One event = one run of the real analyzer on (domain, constraints) with a *)
(* step limit; it records the variable box after propagation, the domain    *)
(* the compiler would publish, and bounds_of for every sub-expression.      *)
(* Bounds arrive rounded OUTWARD to a 1/1024 grid (lo, hi) and INWARD       *)
(* (ilo, ihi); the model itself is exact.                                   *)
(*  (c) soundness of the box: every sampled source-feasible assignment lies *)
(*      inside the box and inside the published domains, whatever the step  *)
(*      limit, also when a contradiction froze propagation                  *)
(*  (b) soundness of expression ranges: at every sampled point of the box,  *)
(*      the value of each sub-expression lies in its derived interval       *)
(*  no bound is NaN; lower <= upper is not required (empty = infeasible)    *)
EXTENDS Grid, Json, IOUtils

Rec == ndJsonDeserialize(IOEnv.TRACE)
Start == atoi(IOEnv.START)
VARIABLE l
vars == <<l>>

InBox(b, v) == LoOk(b.lo, v) /\ HiOk(b.hi, v)
BoxOf(ev, nm) == CHOOSE i \in 1..Len(ev.box) : ev.box[i].name = nm
PubOf(ev, nm) == CHOOSE i \in 1..Len(ev.pubdom) : ev.pubdom[i].name = nm
IsNaN(b) == "nan" \in DOMAIN b
HasNaN(ev) == \E i \in 1..Len(ev.box) : IsNaN(ev.box[i].lo) \/ IsNaN(ev.box[i].hi)
SubNaN(ev) == \E i \in 1..Len(ev.subs) : IsNaN(ev.subs[i].lo) \/ IsNaN(ev.subs[i].hi)

\* (c)
Escapes(ev) == {env \in Envs(ev) : SatSrc(ev, env) /\
                  \E i \in 1..Len(ev.sdom) : ev.sdom[i].used /\
                     LET nm == ev.sdom[i].name IN
                     ~InBox(ev.box[BoxOf(ev, nm)], env[nm]) \/ ~InDom(ev.pubdom[PubOf(ev, nm)], env[nm])}

\* (b) sample points inside the (inward-rounded) box
BoxSamples(ev, d) ==
   LET b == ev.box[BoxOf(ev, d.name)] IN
   {v \in Samples([d EXCEPT !.lo = b.ilo, !.hi = b.ihi], ev.g) :
        LoOk(b.ilo, v) /\ HiOk(b.ihi, v) /\ (d.kind = "int" => RIsInt(v))}
RECURSIVE BoxEnvsR(_, _, _)
BoxEnvsR(ev, ds, i) ==
   IF i > Len(ds) THEN {<<>>}
   ELSE {(ds[i].name :> v) @@ e : v \in BoxSamples(ev, ds[i]), e \in BoxEnvsR(ev, ds, i + 1)}
BoxEnvs(ev) == BoxEnvsR(ev, UsedDecls(ev), 1)
OutOfRange(ev) == {<<env, i>> \in BoxEnvs(ev) \X (1..Len(ev.subs)) :
                      LET v == Eval(ev.subs[i].e, env) IN IsDef(v) /\ ~InBox(ev.subs[i], v)}

Report(ev, bad, what) ==
   IF bad = {} THEN TRUE
   ELSE PrintT(<<"REJECT", "C07", ev.id, what, ToJson(CHOOSE e \in bad : TRUE)>>)

Check(ev) ==
   IF ev.out = "panic" THEN PrintT(<<"REJECT", "C07", ev.id, "panic", "">>)
   ELSE IF ev.out # "ok" THEN PrintT(<<"SKIP", ev.id, ev.out>>)
   ELSE /\ (IF HasNaN(ev) \/ SubNaN(ev) THEN PrintT(<<"REJECT", "C07", ev.id, "nan", "">>) ELSE TRUE)
        /\ Report(ev, Escapes(ev), "box")
        /\ Report(ev, OutOfRange(ev), "expr")
        /\ PrintT(<<"STAT", ev.id, Cardinality(Envs(ev)),
                    Cardinality({env \in Envs(ev) : SatSrc(ev, env)}),
                    Cardinality(BoxEnvs(ev)), Len(ev.subs)>>)

Init == l = Start
Next == l <= Len(Rec) /\ Check(Rec[l]) /\ l' = l + 1
Spec == Init /\ [][Next]_vars
Accepted == IF TLCGet("stats").diameter = Len(Rec) - Start + 2
            THEN PrintT(<<"ACCEPTED", Len(Rec) - Start + 1>>)
            ELSE PrintT(<<"INCOMPLETE", TLCGet("stats").diameter>>) /\ FALSE
=============================================================================
