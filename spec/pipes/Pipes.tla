--------------------------------- MODULE Pipes ---------------------------------
(* The staged pipe runner as a typed state machine (C16, staged front door).      *)
(* A run holds the list of data produced so far; each pipe reads the LAST datum,   *)
(* requires it to be of one kind and appends a datum of another kind:              *)
(*    Compiler      String              -> Parser                                  *)
(*    PreModel      Parser              -> PreModel                                *)
(*    Model         PreModel            -> Model       (type check + transform)    *)
(*    LinearModel   Model               -> LinearModel                             *)
(*    Standard      LinearModel         -> StandardLinearModel                     *)
(*    Tableau       StandardLinearModel -> Tableau                                 *)
(*    StepByStep    Tableau             -> OptimalTableauWithSteps                 *)
(*    Real          LinearModel         -> RealSolution   (real variables only)    *)
(*    (Standard likewise accepts real variables only: the simplex path)            *)
(*    MILP / Auto   LinearModel         -> MILPSolution                            *)
(* A pipe handed a datum of another kind stops the run with                        *)
(* InvalidData(expected, got) and the runner returns the data produced so far.     *)
(* The machine below generates every sequence of pipes up to MaxLen over a         *)
(* source text of class Class ("real": only real variables, "mixed": Boolean and   *)
(* integer variables as well) and records what the design says the run yields.     *)
(* Design invariants (checked by TLC on the machine itself):                       *)
(*    Chain      each datum is the output kind of the pipe that made it and the    *)
(*               input kind of that pipe is the kind of the datum before           *)
(*    Terminal   solutions and the optimal tableau are consumed by no pipe         *)
(*    OnlyOneWay every kind is produced from exactly one input kind: a run that    *)
(*               ends in a solution went through every stage before it            *)
EXTENDS Integers, Sequences, FiniteSets, TLC, Json
CONSTANTS MaxLen, Class

PipeNames == {"Compiler", "PreModel", "Model", "LinearModel", "Standard", "Tableau", "StepByStep", "Real", "MILP", "Auto"}
In(p) == CASE p = "Compiler" -> "String" [] p = "PreModel" -> "Parser" [] p = "Model" -> "PreModel" [] p = "LinearModel" -> "Model"
           [] p = "Standard" -> "LinearModel" [] p = "Tableau" -> "StandardLinearModel" [] p = "StepByStep" -> "Tableau"
           [] p \in {"Real", "MILP", "Auto"} -> "LinearModel"
Out(p) == CASE p = "Compiler" -> "Parser" [] p = "PreModel" -> "PreModel" [] p = "Model" -> "Model" [] p = "LinearModel" -> "LinearModel"
           [] p = "Standard" -> "StandardLinearModel" [] p = "Tableau" -> "Tableau" [] p = "StepByStep" -> "OptimalTableauWithSteps"
           [] p = "Real" -> "RealSolution" [] p \in {"MILP", "Auto"} -> "MILPSolution"
Kinds == {"String"} \cup {Out(p) : p \in PipeNames}
\* a pipe whose input kind matches may still refuse the DATA: the real solver and the standard form
\* (the simplex path) want real variables only
Refuses(p) == p \in {"Real", "Standard"} /\ Class = "mixed"
Refusal(p) == IF p = "Real" THEN "SolverError:InvalidDomain" ELSE "StandardizationError"

VARIABLES pipes, data, status, expected, got
vars == <<pipes, data, status, expected, got>>
Init == pipes = <<>> /\ data = <<"String">> /\ status = "ok" /\ expected = "" /\ got = ""
Step(p) ==
   /\ status = "ok" /\ Len(pipes) < MaxLen
   /\ pipes' = Append(pipes, p)
   /\ IF In(p) # data[Len(data)]
      THEN status' = "invalid" /\ expected' = In(p) /\ got' = data[Len(data)] /\ UNCHANGED data
      ELSE IF Refuses(p)
      THEN status' = "refused" /\ expected' = Refusal(p) /\ UNCHANGED <<data, got>>
      ELSE data' = Append(data, Out(p)) /\ UNCHANGED <<status, expected, got>>
Next == \E p \in PipeNames : Step(p)
Spec == Init /\ [][Next]_vars

Chain == \A i \in 1..(Len(data) - 1) : data[i + 1] = Out(pipes[i]) /\ data[i] = In(pipes[i])
Terminal == \A p \in PipeNames : In(p) \notin {"RealSolution", "MILPSolution", "OptimalTableauWithSteps"}
OnlyOneWay == \A p, q \in PipeNames : Out(p) = Out(q) => In(p) = In(q)
TypeOK == status \in {"ok", "invalid", "refused"} /\ Len(data) <= Len(pipes) + 1 /\ (status = "ok" => Len(data) = Len(pipes) + 1)
Emit == PrintT(<<"CASE", ToJson([pipes |-> pipes, data |-> data, status |-> status, expected |-> expected, got |-> got, class |-> Class])>>)
=============================================================================
