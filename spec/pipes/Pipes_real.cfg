SPECIFICATION Spec
CONSTANT MaxLen = 8
CONSTANT Class = "real"
INVARIANT Chain
INVARIANT Terminal
INVARIANT OnlyOneWay
INVARIANT TypeOK
INVARIANT Emit
CHECK_DEADLOCK FALSE
