SPECIFICATION Spec
CONSTANT Family = "sets"
INVARIANT Emit
CHECK_DEADLOCK FALSE
