SPECIFICATION Spec
CONSTANT Family = "agg"
INVARIANT Emit
CHECK_DEADLOCK FALSE
