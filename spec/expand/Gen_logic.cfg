SPECIFICATION Spec
CONSTANT Family = "logic"
INVARIANT Emit
CHECK_DEADLOCK FALSE
