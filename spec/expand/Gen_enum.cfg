SPECIFICATION Spec
CONSTANT Family = "enum"
INVARIANT Emit
CHECK_DEADLOCK FALSE
