-------------------------------- MODULE Expand --------------------------------
(* Reference semantics of the data-driven constructs (C06) and generator of    *)
(* test programs.  A program is built by the machine below from                *)
(*   - fixed data: arrays A1, E0 (empty), W2, a nested array M2, a weighted graph G *)
(*   - binders (iteration declarations):                                       *)
(*       i in lo..hi   i in lo..=hi   i in 0..len(A)   a in A                  *)
(*       (a, i) in enumerate(A)   r in M followed by e in r                    *)
(*       u in nodes(G)   (u, v) in edges(G)   (u, v, w) in edges(G)            *)
(*       (_, v) in neigh_edges(u)   (a, b) in zip(A, B)                         *)
(*       a in union(A, B) / intersection(A, B) / difference(A, B)               *)
(*   - a row template: terms over the bound names (x_i, x_{i + 1}, x_i_j,      *)
(*     a * x_i, A[i] * x_i, w * x_u_v, i * x_i), optionally inside an           *)
(*     aggregation block (sum / min / max / avg over binders; prod over data     *)
(*     factors scaling a variable; all / any / xor over Boolean variables as a   *)
(*     logic assertion or as a 0/1 term), a relation, a                          *)
(*     constant, an optional indexed name, and a `for` clause of binders        *)
(* Scoping: a binder may not re-bind a name that an enclosing scope (the `for`   *)
(* clause, an earlier binder of the same list) already binds - the program is    *)
(* then rejected (AlreadyDeclaredVariable) - while two aggregations side by side  *)
(* may both use the same name (WellScoped, family "scope").                       *)
(* Envs(bs) is THE meaning of a binder list: the sequence of environments in    *)
(* iteration order (first binder outermost, later binders may use earlier       *)
(* names).  Unroll(row) is the list of concrete rows in that order.  The        *)
(* machine prints both the program text with the constructs and the text        *)
(* unrolled by this specification; the real compiler must produce the same      *)
(* linear model for both.                                                      *)
EXTENDS Integers, Sequences, FiniteSets, TLC, Json
CONSTANT Family

\* ---- data ---------------------------------------------------------------------
ArrA == <<3, 1, 2>>
ArrE == <<>>
ArrW == <<2, 5>>
ArrD == <<2, 4, 4, 3>>          \* (a repeated value: the set functions)
ArrZ == <<0, 3, 0, 9>>          \* (zeros among the data: an average counts them)
MatX == <<<<1, 2>>, <<3, 4>>>>   \* written [[1, 2], [3.0, 4.0]]: rows of different element kinds
NodesH == <<"P1", "P2">>         \* a graph without edges
MatM == <<<<1, 2>>, <<3, 4>>>>
Nodes == <<"N1", "N2", "N3">>
Edges == <<[u |-> "N1", v |-> "N2", w |-> 2], [u |-> "N1", v |-> "N3", w |-> 1], [u |-> "N2", v |-> "N3", w |-> 3]>>
ArrOf(nm) == CASE nm = "A1" -> ArrA [] nm = "E0" -> ArrE [] nm = "W2" -> ArrW [] nm = "D4" -> ArrD [] nm = "Z4" -> ArrZ
DataText == "    let A1 = [3, 1, 2]\n    let E0 = []\n    let W2 = [2, 5]\n    let D4 = [2, 4, 4, 3]\n    let Z4 = [0, 3, 0, 9]\n    let M2 = [[1, 2], [3, 4]]\n" \o
            "    let G = Graph {\n        N1 -> [N2: 2, N3: 1],\n        N2 -> [N3: 3],\n        N3\n    }\n" \o
            "    let X2 = [[1, 2], [3.0, 4.0]]\n    let H = Graph { P1, P2 }"

\* ---- binders -------------------------------------------------------------------
\* [k, v (name), v2, v3, lo, hi, arr]
Rng(v, lo, hi) == [k |-> "range", v |-> v, lo |-> lo, hi |-> hi]
RngI(v, lo, hi) == [k |-> "rangei", v |-> v, lo |-> lo, hi |-> hi]
LenR(v, arr) == [k |-> "lenrange", v |-> v, arr |-> arr]
InArr(v, arr) == [k |-> "arr", v |-> v, arr |-> arr]
Enum(v, i, arr) == [k |-> "enum", v |-> v, v2 |-> i, arr |-> arr]
RowsM(v) == [k |-> "rows", v |-> v]
ElemsOf(v, r) == [k |-> "elems", v |-> v, of |-> r]
NodesB(v) == [k |-> "nodes", v |-> v]
Edges2(u, v) == [k |-> "edges2", v |-> u, v2 |-> v]
Edges3(u, v, w) == [k |-> "edges3", v |-> u, v2 |-> v, v3 |-> w]
NodesHB(v) == [k |-> "nodesH", v |-> v]
EdgesHB(u, v) == [k |-> "edgesH", v |-> u, v2 |-> v]
Neigh(v, of) == [k |-> "neigh", v |-> v, of |-> of]                                  \* (_, v) in neigh_edges(of)
NeighOf(v, node) == [k |-> "neighof", v |-> v, node |-> node]                        \* (_, v) in neigh_edges_of("N1", G): the node by its name
Zip(a, b, arr1, arr2) == [k |-> "zip", v |-> a, v2 |-> b, arr |-> arr1, arr2 |-> arr2]
SetOp(v, fn, arr1, arr2) == [k |-> "setop", v |-> v, fn |-> fn, arr |-> arr1, arr2 |-> arr2]
\* family "compose": an iterable function applied to the result of another one.  A tuple binder is flat
\* ((p, i), never ((a, b), i)), so the name that receives a tuple (p) is bound but cannot be read.
EnumZip(p, i, arr1, arr2) == [k |-> "enumzip", v |-> p, v2 |-> i, arr |-> arr1, arr2 |-> arr2]      \* (p, i) in enumerate(zip(A, B))
EnumEnum(p, i, arr) == [k |-> "enumenum", v |-> p, v2 |-> i, arr |-> arr]                              \* (p, i) in enumerate(enumerate(A))
ZipEnum(a, p, arr1, arr2) == [k |-> "zipenum", v |-> a, v2 |-> p, arr |-> arr1, arr2 |-> arr2]       \* (a, p) in zip(A, enumerate(B))
EnumSet(e, i, fn, arr1, arr2) == [k |-> "enumset", v |-> e, v2 |-> i, fn |-> fn, arr |-> arr1, arr2 |-> arr2]  \* (e, i) in enumerate(union(A, B))
ZipSet(a, b, fn, arr1, arr2, arr3) == [k |-> "zipset", v |-> a, v2 |-> b, fn |-> fn, arr |-> arr1, arr2 |-> arr2, arr3 |-> arr3]  \* (a, b) in zip(A, union(B, C))
EnumRows(r, i) == [k |-> "enumrows", v |-> r, v2 |-> i]                                                \* (r, i) in enumerate(M2)
RngTo(v, lo, hiname) == [k |-> "rangeto", v |-> v, lo |-> lo, hiname |-> hiname]     \* i in lo..j  (dependent bound)

\* family "alias": the second names the language gives its built-ins - V, E, N, enum for nodes, edges,
\* neigh_edges, enumerate; range(a, b, inclusive) for a..b; conjunction / disjunction /
\* exclusive_disjunction for all / any / xor.  The meaning is that of the first names.
Short == Family = "alias"
FnName(long) == IF ~Short THEN long ELSE CASE long = "nodes" -> "V" [] long = "edges" -> "E" [] long = "neigh_edges" -> "N" [] long = "enumerate" -> "enum" [] OTHER -> long
BinderText(b) ==
   CASE b.k = "range" -> IF Short THEN b.v \o " in range(" \o ToString(b.lo) \o ", " \o ToString(b.hi) \o ", false)"
                         ELSE b.v \o " in " \o ToString(b.lo) \o ".." \o ToString(b.hi)
     [] b.k = "rangei" -> IF Short THEN b.v \o " in range(" \o ToString(b.lo) \o ", " \o ToString(b.hi) \o ", true)"
                          ELSE b.v \o " in " \o ToString(b.lo) \o "..=" \o ToString(b.hi)
     [] b.k = "rangeto" -> b.v \o " in " \o ToString(b.lo) \o ".." \o b.hiname
     [] b.k = "lenrange" -> b.v \o " in 0..len(" \o b.arr \o ")"
     [] b.k = "arr" -> b.v \o " in " \o b.arr
     [] b.k = "enum" -> "(" \o b.v \o ", " \o b.v2 \o ") in " \o FnName("enumerate") \o "(" \o b.arr \o ")"
     [] b.k = "rows" -> b.v \o " in M2"
     [] b.k = "elems" -> b.v \o " in " \o b.of
     [] b.k = "nodes" -> b.v \o " in " \o FnName("nodes") \o "(G)"
     [] b.k = "edges2" -> "(" \o b.v \o ", " \o b.v2 \o ") in " \o FnName("edges") \o "(G)"
     [] b.k = "edges3" -> "(" \o b.v \o ", " \o b.v2 \o ", " \o b.v3 \o ") in " \o FnName("edges") \o "(G)"
     [] b.k = "nodesH" -> b.v \o " in " \o FnName("nodes") \o "(H)"
     [] b.k = "edgesH" -> "(" \o b.v \o ", " \o b.v2 \o ") in " \o FnName("edges") \o "(H)"
     [] b.k = "neigh" -> "(_, " \o b.v \o ") in " \o FnName("neigh_edges") \o "(" \o b.of \o ")"
     [] b.k = "neighof" -> "(_, " \o b.v \o ") in " \o (IF Short THEN "N_of" ELSE "neigh_edges_of") \o "(\"" \o b.node \o "\", G)"
     [] b.k = "zip" -> "(" \o b.v \o ", " \o b.v2 \o ") in zip(" \o b.arr \o ", " \o b.arr2 \o ")"
     [] b.k = "setop" -> b.v \o " in " \o b.fn \o "(" \o b.arr \o ", " \o b.arr2 \o ")"
     [] b.k = "enumzip" -> "(" \o b.v \o ", " \o b.v2 \o ") in " \o FnName("enumerate") \o "(zip(" \o b.arr \o ", " \o b.arr2 \o "))"
     [] b.k = "enumenum" -> "(" \o b.v \o ", " \o b.v2 \o ") in " \o FnName("enumerate") \o "(" \o FnName("enumerate") \o "(" \o b.arr \o "))"
     [] b.k = "zipenum" -> "(" \o b.v \o ", " \o b.v2 \o ") in zip(" \o b.arr \o ", " \o FnName("enumerate") \o "(" \o b.arr2 \o "))"
     [] b.k = "enumset" -> "(" \o b.v \o ", " \o b.v2 \o ") in " \o FnName("enumerate") \o "(" \o b.fn \o "(" \o b.arr \o ", " \o b.arr2 \o "))"
     [] b.k = "zipset" -> "(" \o b.v \o ", " \o b.v2 \o ") in zip(" \o b.arr \o ", " \o b.fn \o "(" \o b.arr2 \o ", " \o b.arr3 \o "))"
     [] b.k = "enumrows" -> "(" \o b.v \o ", " \o b.v2 \o ") in " \o FnName("enumerate") \o "(M2)"
RECURSIVE JoinS(_, _, _)
JoinS(s, i, sep) == IF i > Len(s) THEN "" ELSE (IF i > 1 THEN sep ELSE "") \o s[i] \o JoinS(s, i + 1, sep)
BindersText(bs) == JoinS([i \in 1..Len(bs) |-> BinderText(bs[i])], 1, ", ")

\* the bindings one binder contributes, given the environment so far: a sequence of envs
RangeSeq(lo, hi) == [i \in 1..(IF hi >= lo THEN hi - lo + 1 ELSE 0) |-> lo + i - 1]
\* a bound value: number (n, and its text s), node (text s) or array (arr)
NumB(x) == [n |-> x, s |-> ToString(x), arr |-> <<>>]
NodeB(nm) == [n |-> 0, s |-> nm, arr |-> <<>>]
ArrB(a) == [n |-> 0, s |-> "", arr |-> a]
\* the set functions on arrays: order of first occurrence
InSeq(x, q) == \E i \in 1..Len(q) : q[i] = x
RECURSIVE Dedup(_, _)
Dedup(q, acc) == IF q = <<>> THEN acc ELSE Dedup(Tail(q), IF InSeq(Head(q), acc) THEN acc ELSE Append(acc, Head(q)))
SetVal(fn, a, b) == CASE fn = "union" -> Dedup(a \o b, <<>>)
                      [] fn = "intersection" -> SelectSeq(a, LAMBDA x : InSeq(x, b))
                      [] fn = "difference" -> SelectSeq(a, LAMBDA x : ~InSeq(x, b))
OutEdges(nm) == SelectSeq(Edges, LAMBDA e : e.u = nm)
MinOf(a, b) == IF a < b THEN a ELSE b
Bind(b, env) ==
   CASE b.k = "range" -> [j \in 1..Len(RangeSeq(b.lo, b.hi - 1)) |-> env @@ (b.v :> NumB(RangeSeq(b.lo, b.hi - 1)[j]))]
     [] b.k = "rangei" -> [j \in 1..Len(RangeSeq(b.lo, b.hi)) |-> env @@ (b.v :> NumB(RangeSeq(b.lo, b.hi)[j]))]
     [] b.k = "rangeto" -> [j \in 1..Len(RangeSeq(b.lo, env[b.hiname].n - 1)) |-> env @@ (b.v :> NumB(RangeSeq(b.lo, env[b.hiname].n - 1)[j]))]
     [] b.k = "lenrange" -> [j \in 1..Len(ArrOf(b.arr)) |-> env @@ (b.v :> NumB(j - 1))]
     [] b.k = "arr" -> [j \in 1..Len(ArrOf(b.arr)) |-> env @@ (b.v :> NumB(ArrOf(b.arr)[j]))]
     [] b.k = "enum" -> [j \in 1..Len(ArrOf(b.arr)) |-> env @@ (b.v :> NumB(ArrOf(b.arr)[j])) @@ (b.v2 :> NumB(j - 1))]
     [] b.k = "rows" -> [j \in 1..Len(MatM) |-> env @@ (b.v :> ArrB(MatM[j]))]
     [] b.k = "elems" -> [j \in 1..Len(env[b.of].arr) |-> env @@ (b.v :> NumB(env[b.of].arr[j]))]
     [] b.k = "nodes" -> [j \in 1..Len(Nodes) |-> env @@ (b.v :> NodeB(Nodes[j]))]
     [] b.k = "edges2" -> [j \in 1..Len(Edges) |-> env @@ (b.v :> NodeB(Edges[j].u)) @@ (b.v2 :> NodeB(Edges[j].v))]
     [] b.k = "edges3" -> [j \in 1..Len(Edges) |-> env @@ (b.v :> NodeB(Edges[j].u)) @@ (b.v2 :> NodeB(Edges[j].v)) @@ (b.v3 :> NumB(Edges[j].w))]
     [] b.k = "nodesH" -> [j \in 1..Len(NodesH) |-> env @@ (b.v :> NodeB(NodesH[j]))]
     [] b.k = "edgesH" -> <<>>
     [] b.k = "neigh" -> LET es == OutEdges(env[b.of].s) IN [j \in 1..Len(es) |-> env @@ (b.v :> NodeB(es[j].v))]
     [] b.k = "neighof" -> LET es == OutEdges(b.node) IN [j \in 1..Len(es) |-> env @@ (b.v :> NodeB(es[j].v))]
     [] b.k = "zip" -> [j \in 1..MinOf(Len(ArrOf(b.arr)), Len(ArrOf(b.arr2))) |-> env @@ (b.v :> NumB(ArrOf(b.arr)[j])) @@ (b.v2 :> NumB(ArrOf(b.arr2)[j]))]
     [] b.k = "setop" -> LET q == SetVal(b.fn, ArrOf(b.arr), ArrOf(b.arr2)) IN [j \in 1..Len(q) |-> env @@ (b.v :> NumB(q[j]))]
     \* enumerate pairs EVERY element - a number, a pair, a row - with its position
     [] b.k = "enumzip" -> [j \in 1..MinOf(Len(ArrOf(b.arr)), Len(ArrOf(b.arr2))) |-> env @@ (b.v :> ArrB(<<>>)) @@ (b.v2 :> NumB(j - 1))]
     [] b.k = "enumenum" -> [j \in 1..Len(ArrOf(b.arr)) |-> env @@ (b.v :> ArrB(<<>>)) @@ (b.v2 :> NumB(j - 1))]
     [] b.k = "zipenum" -> [j \in 1..MinOf(Len(ArrOf(b.arr)), Len(ArrOf(b.arr2))) |-> env @@ (b.v :> NumB(ArrOf(b.arr)[j])) @@ (b.v2 :> ArrB(<<>>))]
     [] b.k = "enumset" -> LET q == SetVal(b.fn, ArrOf(b.arr), ArrOf(b.arr2)) IN [j \in 1..Len(q) |-> env @@ (b.v :> NumB(q[j])) @@ (b.v2 :> NumB(j - 1))]
     [] b.k = "zipset" -> LET q == SetVal(b.fn, ArrOf(b.arr2), ArrOf(b.arr3)) IN
                          [j \in 1..MinOf(Len(ArrOf(b.arr)), Len(q)) |-> env @@ (b.v :> NumB(ArrOf(b.arr)[j])) @@ (b.v2 :> NumB(q[j]))]
     [] b.k = "enumrows" -> [j \in 1..Len(MatM) |-> env @@ (b.v :> ArrB(MatM[j])) @@ (b.v2 :> NumB(j - 1))]
RECURSIVE Flat(_, _)
Flat(ss, i) == IF i > Len(ss) THEN <<>> ELSE ss[i] \o Flat(ss, i + 1)
RECURSIVE EnvsFrom(_, _, _)
\* all environments of binders bs[k..], outermost first
EnvsFrom(bs, k, env) ==
   IF k > Len(bs) THEN <<env>>
   ELSE LET here == Bind(bs[k], env) IN Flat([j \in 1..Len(here) |-> EnvsFrom(bs, k + 1, here[j])], 1)
Envs(bs, env) == EnvsFrom(bs, 1, env)

\* ---- terms ---------------------------------------------------------------------
\* index expression: [v |-> bound name, off |-> int];   coefficient: [k |-> "one" | "lit" | "val" | "acc", ...]
Ix(v, off) == [v |-> v, off |-> off]
IxText(ix) == IF ix.off = 0 THEN "_" \o ix.v ELSE "_{" \o ix.v \o " + " \o ToString(ix.off) \o "}"
IdxText(ix, env) == IF ix.off = 0 THEN env[ix.v].s ELSE ToString(env[ix.v].n + ix.off)
Term(base, ixs, coef) == [base |-> base, ixs |-> ixs, coef |-> coef]
\* an aggregation of CONSTANTS used as a coefficient: over the elements, or over the positions
AggCoefText(c) == IF c.by = "elem" THEN c.fn \o "(a9 in " \o c.arr \o ") { a9 }"
                  ELSE c.fn \o "(i9 in 0..len(" \o c.arr \o ")) { " \o c.arr \o "[i9] }"
RECURSIVE SumSeq(_, _)
SumSeq(q, i) == IF i > Len(q) THEN 0 ELSE q[i] + SumSeq(q, i + 1)
AggOf(fn, q) == CASE fn = "sum" -> SumSeq(q, 1) [] fn = "avg" -> SumSeq(q, 1) \div Len(q)
                  [] fn = "max" -> CHOOSE m \in {q[i] : i \in 1..Len(q)} : \A i \in 1..Len(q) : q[i] <= m
                  [] fn = "min" -> CHOOSE m \in {q[i] : i \in 1..Len(q)} : \A i \in 1..Len(q) : q[i] >= m
CoefText(c) == CASE c.k = "one" -> "" [] c.k = "lit" -> ToString(c.n) \o " * " [] c.k = "val" -> c.v \o " * "
                 [] c.k = "acc" -> c.arr \o "[" \o c.v \o "] * "
                 [] c.k = "agg" -> AggCoefText(c) \o " * "
                 [] c.k = "acc2" -> "X2[" \o c.v \o "][" \o c.v2 \o "] * "
FactorText(c) == CASE c.k = "lit" -> ToString(c.n) [] c.k = "val" -> c.v [] c.k = "acc" -> c.arr \o "[" \o c.v \o "]"
                   [] c.k = "acc2" -> "X2[" \o c.v \o "][" \o c.v2 \o "]"
CoefVal(c, env) == CASE c.k = "one" -> 1 [] c.k = "lit" -> c.n [] c.k = "val" -> env[c.v].n [] c.k = "acc" -> ArrOf(c.arr)[env[c.v].n + 1] [] c.k = "acc2" -> MatX[env[c.v].n + 1][env[c.v2].n + 1]
                      [] c.k = "agg" -> AggOf(c.fn, ArrOf(c.arr))
TermText(t) == CoefText(t.coef) \o t.base \o JoinS([i \in 1..Len(t.ixs) |-> IxText(t.ixs[i])], 1, "")
\* concrete term: [c |-> coefficient, name |-> flattened variable name]
NameOf(t, env) == t.base \o JoinS([i \in 1..Len(t.ixs) |-> "_" \o IdxText(t.ixs[i], env)], 1, "")
Concrete(t, env) == [c |-> CoefVal(t.coef, env), name |-> NameOf(t, env)]
ConcText(ct) == IF ct.c = 1 THEN ct.name ELSE ToString(ct.c) \o " * " \o ct.name
SumText(cts) == IF Len(cts) = 0 THEN "0" ELSE JoinS([i \in 1..Len(cts) |-> ConcText(cts[i])], 1, " + ")

\* ---- rows ----------------------------------------------------------------------
\* [agg |-> "none" | "sum" | "min" | "max" | "avg", inner |-> binders, term, extra |-> optional plain term or <<>>,
\*  cmp, rhs, named |-> BOOLEAN, nameix |-> index name, for |-> binders]
CmpText(c) == CASE c = "le" -> "<=" [] c = "ge" -> ">=" [] c = "eq" -> "="
Logic == {"all", "any", "xor"}
AggName(a) == IF ~Short THEN a ELSE CASE a = "all" -> "conjunction" [] a = "any" -> "disjunction" [] a = "xor" -> "exclusive_disjunction" [] OTHER -> a
\* the variable a prod row scales: the term without its coefficient
BareText(t) == t.base \o JoinS([i \in 1..Len(t.ixs) |-> IxText(t.ixs[i])], 1, "")
LhsText(r) ==
   (CASE r.agg = "none" -> TermText(r.term)
      [] r.agg = "prod" -> "prod(" \o BindersText(r.inner) \o ") { " \o FactorText(r.term.coef) \o " } * " \o BareText(r.term)
      [] OTHER -> AggName(r.agg) \o "(" \o BindersText(r.inner) \o ") { " \o TermText(r.term) \o " }")
   \o (IF r.extra = <<>> THEN "" ELSE " + " \o TermText(r.extra[1]))
   \o JoinS([k \in 1..Len(r.more) |-> " + sum(" \o BindersText(r.more[k].inner) \o ") { " \o TermText(r.more[k].term) \o " }"], 1, "")
RowText(r) ==
   (IF r.named THEN "c_" \o r.nameix \o ": " ELSE "")
   \o LhsText(r) \o (IF r.cmp = "assert" THEN "" ELSE " " \o CmpText(r.cmp) \o " " \o ToString(r.rhs))
   \o (IF r.for = <<>> THEN "" ELSE " for " \o BindersText(r.for))
\* one concrete row per environment of the `for` clause
\* logic aggregations unrolled by hand: the block form over the listed operands, or (style
\* "chain") the operator written between them; over nothing: all = true, any = xor = false
LogicWord(a) == CASE a = "all" -> "and" [] a = "any" -> "or" [] a = "xor" -> "xor"
AggText(r, cts) ==
   CASE r.agg \in {"none", "sum"} -> SumText(cts)
     [] r.agg \in Logic ->
          IF Len(cts) = 0 THEN (IF r.agg = "all" THEN "true" ELSE "false")
          ELSE IF r.style = "chain" THEN (IF r.extra = <<>> \/ Len(cts) = 1 THEN "" ELSE "(") \o JoinS([i \in 1..Len(cts) |-> cts[i].name], 1, " " \o LogicWord(r.agg) \o " ")
                                         \o (IF r.extra = <<>> \/ Len(cts) = 1 THEN "" ELSE ")")
          ELSE r.agg \o " { " \o JoinS([i \in 1..Len(cts) |-> cts[i].name], 1, ", ") \o " }"
     [] r.agg \in {"min", "max"} -> r.agg \o " { " \o JoinS([i \in 1..Len(cts) |-> ConcText(cts[i])], 1, ", ") \o " }"
     [] r.agg = "avg" -> "(" \o SumText(cts) \o ") / " \o ToString(Len(cts))
ConcreteRowText(r, env) ==
   LET inner == IF r.agg = "none" THEN <<env>> ELSE Envs(r.inner, env)
       cts == IF r.agg = "prod" THEN <<>> ELSE [j \in 1..Len(inner) |-> Concrete(r.term, inner[j])]
       \* a product of data factors scaling the variable: the factors in iteration order, then the variable
       prodtext == JoinS([j \in 1..Len(inner) |-> ToString(CoefVal(r.term.coef, inner[j])) \o " * "], 1, "")
                   \o (IF Len(inner) = 0 THEN "1 * " ELSE "") \o NameOf(r.term, env)
   IN  (IF r.named THEN "c_" \o env[r.nameix].s \o ": " ELSE "")
       \o (IF r.agg = "prod" THEN prodtext ELSE AggText(r, cts))
       \o (IF r.extra = <<>> THEN "" ELSE " + " \o ConcText(Concrete(r.extra[1], env)))
       \o JoinS([k \in 1..Len(r.more) |->
                   LET es == Envs(r.more[k].inner, env) IN " + " \o SumText([j \in 1..Len(es) |-> Concrete(r.more[k].term, es[j])])], 1, "")
       \o (IF r.cmp = "assert" THEN "" ELSE " " \o CmpText(r.cmp) \o " " \o ToString(r.rhs))
\* ---- scoping -------------------------------------------------------------------
BoundBy(b) == {b.v} \cup (IF "v2" \in DOMAIN b THEN {b.v2} ELSE {}) \cup (IF "v3" \in DOMAIN b THEN {b.v3} ELSE {})
\* a binder list is well scoped under the names `outer` iff no binder re-binds a name of `outer` or of an earlier binder
ListScoped(bs, outer) == \A k \in 1..Len(bs) : BoundBy(bs[k]) \cap (outer \cup UNION {BoundBy(bs[j]) : j \in 1..(k - 1)}) = {}
NamesOf(bs) == UNION {BoundBy(bs[k]) : k \in 1..Len(bs)}
WellScoped(r) == /\ ListScoped(r.for, {})
                 /\ ListScoped(r.inner, NamesOf(r.for))
                 /\ \A k \in 1..Len(r.more) : ListScoped(r.more[k].inner, NamesOf(r.for))
Unroll(r) == LET es == Envs(r.for, <<>>) IN [j \in 1..Len(es) |-> ConcreteRowText(r, es[j])]
\* an aggregation over no elements has no meaning for min / max / avg: such rows are not generated
InnerCounts(r) == LET es == Envs(r.for, <<>>) IN {Len(Envs(r.inner, es[j])) : j \in 1..Len(es)}
Meaningful(r) == r.agg \in {"none", "sum", "prod"} \cup Logic \/ 0 \notin InnerCounts(r)

\* ---- declarations ---------------------------------------------------------------
\* variable families are declared over index domains that cover every use; the unrolled
\* program declares each name explicitly (in the same order)
DeclProg == "    x_i as Boolean for i in 0..6\n" \o
            "    y_i_j as IntegerRange(0, 3) for i in 0..6, j in 0..6\n" \o
            "    z_u as NonNegativeReal(0, 9) for u in nodes(G)\n" \o
            "    f_u_v as Real(-2, 4) for (u, v) in edges(G)\n" \o
            "    h_u as Boolean for u in nodes(H)"
DeclUnrolled ==
   "    " \o JoinS([i \in 1..6 |-> "x_" \o ToString(i - 1)], 1, ", ") \o " as Boolean\n" \o
   "    " \o JoinS(Flat([i \in 1..6 |-> [j \in 1..6 |-> "y_" \o ToString(i - 1) \o "_" \o ToString(j - 1)]], 1), 1, ", ") \o " as IntegerRange(0, 3)\n" \o
   "    z_N1, z_N2, z_N3 as NonNegativeReal(0, 9)\n" \o
   "    f_N1_N2, f_N1_N3, f_N2_N3 as Real(-2, 4)\n" \o
   "    h_P1, h_P2 as Boolean"

\* ---- the families of rows --------------------------------------------------------
One == [k |-> "one"]
Lit(n) == [k |-> "lit", n |-> n]
Val(v) == [k |-> "val", v |-> v]
Acc(arr, v) == [k |-> "acc", arr |-> arr, v |-> v]
Acc2(v, v2) == [k |-> "acc2", v |-> v, v2 |-> v2]
Agg(fn, arr, by) == [k |-> "agg", fn |-> fn, arr |-> arr, by |-> by]
Row(agg, inner, term, extra, cmp, rhs, named, nameix, for) ==
   [agg |-> agg, inner |-> inner, term |-> term, extra |-> extra, cmp |-> cmp, rhs |-> rhs, named |-> named, nameix |-> nameix, for |-> for, style |-> "block", more |-> <<>>]
Chain(r) == [r EXCEPT !.style = "chain"]
\* further sum-aggregations added to the left-hand side, each [inner |-> binders, term |-> term]
WithMore(r, ms) == [r EXCEPT !.more = ms]
NumBinders == {Rng("i", 0, 3), Rng("i", 1, 1), RngI("i", 0, 2), RngI("i", 2, 1), LenR("i", "A1"), LenR("i", "E0"), InArr("i", "A1"), Rng("i", 2, 4)}
\* rows over one numeric index i
TermsI == {Term("x", <<Ix("i", 0)>>, One), Term("x", <<Ix("i", 1)>>, One), Term("x", <<Ix("i", 0)>>, Val("i")), Term("x", <<Ix("i", 0)>>, Lit(2))}
RowsFor1 == {Row("none", <<>>, t, <<>>, c, 1, n, "i", <<b>>) : t \in TermsI, c \in {"le", "ge"}, n \in BOOLEAN, b \in NumBinders}
RowsSum1 == {Row(a, <<b>>, t, <<>>, c, 2, FALSE, "i", <<>>) : a \in {"sum", "min", "max", "avg"}, t \in TermsI, c \in {"le", "eq"}, b \in NumBinders}
\* values and enumerate
RowsEnum == {Row(a, <<Enum("a", "i", arr)>>, Term("x", <<Ix("i", 0)>>, cf), <<>>, "le", 7, FALSE, "i", <<>>)
                : a \in {"sum", "max"}, arr \in {"A1", "W2", "E0"}, cf \in {Val("a"), One, Acc("A1", "i")}}
            \cup {Row("none", <<>>, Term("x", <<Ix("i", 0)>>, Val("a")), <<>>, "ge", 1, n, "i", <<Enum("a", "i", arr)>>) : arr \in {"A1", "W2", "E0"}, n \in BOOLEAN}
\* two indices: nested and dependent binders, nested arrays
RowsTwo == {Row("sum", <<bj>>, Term("y", <<Ix("i", 0), Ix("j", 0)>>, cf), <<>>, c, 3, n, "i", <<bi>>)
              : bj \in {Rng("j", 0, 2), RngTo("j", 0, "i"), LenR("j", "W2")}, cf \in {One, Val("j")}, c \in {"le", "ge"}, n \in BOOLEAN,
                bi \in {Rng("i", 0, 3), RngI("i", 1, 2)}}
           \cup {Row("none", <<>>, Term("y", <<Ix("i", 0), Ix("j", 1)>>, One), <<>>, "le", 2, FALSE, "i", <<bi, bj>>)
                   : bi \in {Rng("i", 0, 2), LenR("i", "W2")}, bj \in {Rng("j", 1, 3), RngTo("j", 0, "i")}}
           \cup {Row("sum", <<RowsM("r"), ElemsOf("e", "r")>>, Term("x", <<Ix("e", 0)>>, cf), <<>>, "le", 9, FALSE, "i", <<>>) : cf \in {One, Val("e")}}
           \cup {Row("sum", <<ElemsOf("e", "r")>>, Term("x", <<Ix("e", 0)>>, Val("e")), <<>>, "ge", 1, FALSE, "i", <<RowsM("r")>>)}
           \cup {Row("sum", <<Rng("i", 0, 2), Rng("j", 0, 2)>>, Term("y", <<Ix("i", 0), Ix("j", 0)>>, Val("i")), <<>>, "le", 4, FALSE, "i", <<>>)}
\* graphs
RowsGraph == {Row(a, <<NodesB("u")>>, Term("z", <<Ix("u", 0)>>, One), <<>>, c, 2, FALSE, "u", <<>>) : a \in {"sum", "max"}, c \in {"le", "ge"}}
             \cup {Row("none", <<>>, Term("z", <<Ix("u", 0)>>, One), <<>>, "le", 5, n, "u", <<NodesB("u")>>) : n \in BOOLEAN}
             \cup {Row("sum", <<Edges2("u", "v")>>, Term("f", <<Ix("u", 0), Ix("v", 0)>>, One), <<>>, "le", 3, FALSE, "u", <<>>)}
             \cup {Row("sum", <<Edges3("u", "v", "w")>>, Term("f", <<Ix("u", 0), Ix("v", 0)>>, Val("w")), <<>>, c, 6, FALSE, "u", <<>>) : c \in {"le", "ge"}}
             \cup {Row("none", <<>>, Term("f", <<Ix("u", 0), Ix("v", 0)>>, cf), <<Term("z", <<Ix("u", 0)>>, One)>>, "le", 4, FALSE, "u", <<Edges3("u", "v", "w")>>) : cf \in {One, Val("w")}}
             \cup {Row("none", <<>>, Term("f", <<Ix("u", 0), Ix("v", 0)>>, One), <<Term("z", <<Ix("v", 0)>>, Lit(2))>>, "ge", 0, TRUE, "u", <<Edges2("u", "v")>>)}
\* products of data factors (prod over ranges incl. dependent and empty ones, array values, accesses)
ProdInner == {<<RngTo("j", 0, "i"), Acc("A1", "j")>>, <<RngTo("j", 1, "i"), Val("j")>>, <<InArr("a", "A1"), Val("a")>>, <<InArr("a", "E0"), Val("a")>>,
              <<LenR("j", "W2"), Acc("W2", "j")>>, <<Rng("j", 1, 1), Lit(2)>>, <<RngI("j", 0, 2), Lit(2)>>, <<Zip("a", "b", "A1", "W2"), Val("b")>>}
RowsProd == {Row("prod", <<pi[1]>>, Term("x", <<Ix("i", 0)>>, pi[2]), <<>>, c, rhs, n, "i", <<bi>>)
               : pi \in ProdInner, c \in {"le", "ge"}, rhs \in {0, 1, 10}, n \in BOOLEAN, bi \in {Rng("i", 0, 4), RngI("i", 1, 2), Rng("i", 2, 2)}}
\* logic aggregations over Boolean variables: assertion rows and 0/1 terms, block and chain twins
LogicInner == {Rng("j", 0, 3), RngTo("j", 0, "i"), RngI("j", 1, 1), Rng("j", 2, 2), LenR("j", "W2"), InArr("j", "A1"), SetOp("j", "difference", "A1", "W2")}
RowsLogicBase == {Row(a, <<bj>>, Term("x", <<Ix("j", 0)>>, One), <<>>, "assert", 0, n, "i", <<bi>>)
                    : a \in Logic, bj \in LogicInner, n \in BOOLEAN, bi \in {Rng("i", 0, 3), RngI("i", 2, 2)}}
                 \cup {Row(a, <<bj>>, Term("x", <<Ix("j", 0)>>, One), <<Term("x", <<Ix("i", 1)>>, One)>>, c, 1, FALSE, "i", <<bi>>)
                    : a \in Logic, bj \in LogicInner, c \in {"ge", "le"}, bi \in {Rng("i", 0, 3), RngI("i", 2, 2)}}
RowsLogic == RowsLogicBase \cup {Chain(r) : r \in RowsLogicBase}
\* zip, set functions, neighbours
RowsSets == {Row(a, <<SetOp("e", fn, a1, a2)>>, Term("x", <<Ix("e", 0)>>, cf), <<>>, "le", 8, FALSE, "i", <<>>)
               : a \in {"sum", "max"}, fn \in {"union", "intersection", "difference"}, a1 \in {"A1", "W2", "E0", "D4"}, a2 \in {"A1", "W2", "E0", "D4"}, cf \in {One, Val("e")}}
            \cup {Row("none", <<>>, Term("x", <<Ix("e", 0)>>, Val("e")), <<>>, "ge", 0, n, "e", <<SetOp("e", fn, a1, a2)>>)
               : fn \in {"union", "intersection", "difference"}, a1 \in {"A1", "W2", "D4"}, a2 \in {"A1", "W2", "E0", "D4"}, n \in BOOLEAN}
            \cup {Row(a, <<Zip("a", "b", a1, a2)>>, Term("x", <<Ix("a", 0)>>, Val("b")), <<>>, "le", 8, FALSE, "i", <<>>)
               : a \in {"sum", "min"}, a1 \in {"A1", "W2"}, a2 \in {"A1", "W2"}}
            \cup {Row("none", <<>>, Term("y", <<Ix("a", 0), Ix("b", 0)>>, Val("a")), <<>>, "le", 6, n, "a", <<Zip("a", "b", a1, a2)>>)
               : a1 \in {"A1", "W2", "E0"}, a2 \in {"A1", "W2"}, n \in BOOLEAN}
RowsNeigh == {Row(a, <<Neigh("v", "u")>>, Term("z", <<Ix("v", 0)>>, One), <<Term("z", <<Ix("u", 0)>>, One)>>, c, 1, n, "u", <<NodesB("u")>>)
               : a \in {"sum"}, c \in {"ge", "le"}, n \in BOOLEAN}
             \cup {Row("none", <<>>, Term("f", <<Ix("u", 0), Ix("v", 0)>>, One), <<>>, "le", 2, FALSE, "u", <<NodesB("u"), Neigh("v", "u")>>)}
             \* the neighbours of a node given by its name (N3 has none)
             \cup {Row(a, <<NeighOf("v", nd)>>, Term("z", <<Ix("v", 0)>>, One), <<>>, c, 1, FALSE, "v", <<>>) : a \in {"sum", "max"}, c \in {"ge", "le"}, nd \in {"N1", "N2", "N3"}}
             \cup {Row("none", <<>>, Term("z", <<Ix("v", 0)>>, One), <<>>, "le", 2, TRUE, "v", <<NeighOf("v", "N1")>>)}
\* scoping: the same name in two aggregations side by side (fine), in nested binders, in `for` and inside (rejected)
ScopeBinders == {Rng("i", 0, 2), Rng("i", 1, 3), RngI("j", 0, 1), InArr("i", "W2"), Enum("a", "i", "W2"), Enum("i", "j", "W2")}
RowsScope == {WithMore(Row("sum", <<b1>>, Term("x", <<Ix(b1.v, 0)>>, One), <<>>, "le", 3, FALSE, "i", fr),
                       <<[inner |-> <<b2>>, term |-> Term("x", <<Ix(b2.v, 0)>>, Val(b2.v))]>>)
               : b1 \in ScopeBinders, b2 \in ScopeBinders, fr \in {<<>>, <<Rng("i", 4, 6)>>, <<Rng("k", 4, 6)>>}}
             \cup {Row("sum", <<b1, b2>>, Term("x", <<Ix(b2.v, 0)>>, One), <<>>, "le", 3, FALSE, "i", <<>>) : b1 \in ScopeBinders, b2 \in ScopeBinders}
\* a matrix whose rows differ in element kind, read element by element; a graph without edges
RowsMixed == {Row(a, <<Rng("i", 0, 2), Rng("j", 0, 2)>>, Term("y", <<Ix("i", 0), Ix("j", 0)>>, Acc2("i", "j")), <<>>, c, 9, FALSE, "i", <<>>)
                : a \in {"sum", "max"}, c \in {"le", "ge"}}
             \cup {Row("none", <<>>, Term("y", <<Ix("i", 0), Ix("j", 0)>>, Acc2("i", "j")), <<>>, "le", 6, n, "i", <<Rng("i", 0, 2), Rng("j", 1, 2)>>) : n \in BOOLEAN}
             \cup {Row("sum", <<Rng("j", 0, 2)>>, Term("y", <<Ix("i", 0), Ix("j", 0)>>, Acc2("i", "j")), <<>>, "le", 6, n, "i", <<RngI("i", 1, 1)>>) : n \in BOOLEAN}
             \cup {Row(a, <<NodesHB("u")>>, Term("h", <<Ix("u", 0)>>, One), <<>>, c, 1, FALSE, "u", <<>>) : a \in {"sum", "any"}, c \in {"le", "ge"}}
             \cup {Row("none", <<>>, Term("h", <<Ix("u", 0)>>, One), <<>>, "le", 1, n, "u", <<NodesHB("u")>>) : n \in BOOLEAN}
             \cup {Row("sum", <<EdgesHB("u", "v")>>, Term("h", <<Ix("u", 0)>>, One), <<Term("h", <<Ix("w", 0)>>, One)>>, "le", 1, FALSE, "w", <<NodesHB("w")>>)}
\* (arrays whose average is a whole number: Z4 = [0, 3, 0, 9] -> 3, A1 = [3, 1, 2] -> 2)
AggCoefs == {Agg(fn, arr, by) : fn \in {"sum", "avg", "min", "max"}, arr \in {"Z4", "A1"}, by \in {"elem", "pos"}}
RowsAgg == {Row("none", <<>>, Term("x", <<Ix("i", 0)>>, cf), <<>>, c, 20, n, "i", <<Rng("i", 0, 2)>>) : cf \in AggCoefs, c \in {"le", "ge"}, n \in BOOLEAN}
           \cup {Row("sum", <<Rng("i", 1, 3)>>, Term("x", <<Ix("i", 0)>>, cf), <<>>, "le", 30, FALSE, "i", <<>>) : cf \in AggCoefs}
\* compositions of the iterable functions
ComposeBinders == {EnumZip("p", "i", a1, a2) : a1 \in {"A1", "W2"}, a2 \in {"A1", "W2", "D4", "E0"}}
                  \cup {EnumEnum("p", "i", a) : a \in {"A1", "W2", "E0", "D4"}}
                  \cup {EnumSet("e", "i", fn, a1, a2) : fn \in {"union", "intersection", "difference"}, a1 \in {"A1", "D4"}, a2 \in {"W2", "D4"}}
ComposeTerms == {Term("x", <<Ix("i", 0)>>, One), Term("x", <<Ix("i", 0)>>, Val("i")), Term("x", <<Ix("i", 1)>>, Lit(2))}
RowsCompose == {Row(a, <<b>>, t, <<>>, c, 7, FALSE, "i", <<>>) : a \in {"sum", "max"}, b \in ComposeBinders, t \in ComposeTerms, c \in {"le", "ge"}}
               \cup {Row("none", <<>>, t, <<>>, "le", 5, n, "i", <<b>>) : b \in ComposeBinders, t \in ComposeTerms, n \in BOOLEAN}
               \cup {Row(a, <<EnumSet("e", "i", fn, "A1", "D4")>>, Term("x", <<Ix("i", 0)>>, Val("e")), <<>>, "le", 9, FALSE, "i", <<>>)
                        : a \in {"sum", "min"}, fn \in {"union", "intersection", "difference"}}
               \cup {Row(a, <<ZipEnum("a", "p", a1, a2)>>, Term("x", <<Ix("a", 0)>>, cf), <<>>, "le", 8, FALSE, "i", <<>>)
                        : a \in {"sum", "max"}, a1 \in {"A1", "W2"}, a2 \in {"A1", "W2", "D4"}, cf \in {One, Val("a")}}
               \cup {Row(a, <<ZipSet("a", "b", fn, a1, "A1", "D4")>>, Term("y", <<Ix("a", 0), Ix("b", 0)>>, Val("b")), <<>>, "le", 8, FALSE, "i", <<>>)
                        : a \in {"sum"}, fn \in {"union", "intersection", "difference"}, a1 \in {"A1", "W2"}}
               \cup {Row("sum", <<ElemsOf("e", "r")>>, Term("y", <<Ix("i", 0), Ix("e", 0)>>, cf), <<>>, "le", 6, n, "i", <<EnumRows("r", "i")>>) : cf \in {One, Val("e")}, n \in BOOLEAN}
               \cup {Row("sum", <<EnumRows("r", "i"), ElemsOf("e", "r")>>, Term("y", <<Ix("i", 0), Ix("e", 0)>>, Val("i")), <<>>, "ge", 1, FALSE, "i", <<>>)}
RowSet == CASE Family = "prod" -> RowsProd
            [] Family = "compose" -> RowsCompose
            [] Family = "mixed" -> RowsMixed
            [] Family = "scope" -> RowsScope
            [] Family = "logic" -> RowsLogic
            [] Family = "sets" -> RowsSets \cup RowsNeigh
            [] Family = "one" -> RowsFor1 \cup RowsSum1
            [] Family = "enum" -> RowsEnum \cup RowsTwo
            [] Family = "graph" -> RowsGraph
            [] Family = "agg" -> RowsAgg
            [] Family = "alias" -> RowsGraph \cup RowsEnum \cup RowsNeigh \cup RowsLogic \cup RowsFor1 \cup RowsCompose
            [] OTHER -> RowsFor1 \cup RowsSum1 \cup RowsEnum \cup RowsTwo \cup RowsGraph \cup RowsProd \cup RowsLogic \cup RowsSets \cup RowsNeigh \cup RowsMixed \cup RowsCompose

\* ---- the machine -----------------------------------------------------------------
\* a program = an objective row template (aggregated) + up to MaxRows row templates
VARIABLES rows, phase
vars == <<rows, phase>>
MaxRows == IF Family = "mix" THEN 3 ELSE 1
Init == rows = <<>> /\ phase = "rows"
AddRow == /\ phase = "rows" /\ Len(rows) < MaxRows
          /\ \E r \in RowSet : Meaningful(r) /\ (Family = "scope" \/ WellScoped(r)) /\ rows' = Append(rows, r)
          /\ UNCHANGED phase
Finish == phase = "rows" /\ Len(rows) >= 1 /\ phase' = "done" /\ UNCHANGED rows
Next == AddRow \/ Finish
Spec == Init /\ [][Next]_vars

ProgText == "min sum(i in 0..2) { x_i }\ns.t.\n    0 <= 1\n"
            \o JoinS([k \in 1..Len(rows) |-> "    " \o RowText(rows[k])], 1, "\n")
            \o "\nwhere\n" \o DataText \o "\ndefine\n" \o DeclProg
AllScoped == \A k \in 1..Len(rows) : WellScoped(rows[k])
UnrolledRows == IF AllScoped THEN Flat([k \in 1..Len(rows) |-> Unroll(rows[k])], 1) ELSE <<>>
UnrolledText == "min x_0 + x_1\ns.t.\n    0 <= 1\n"
            \o JoinS([k \in 1..Len(UnrolledRows) |-> "    " \o UnrolledRows[k]], 1, "\n")
            \o "\ndefine\n" \o DeclUnrolled
\* both texts start with the row 0 <= 1, so that a program whose rows all range over
\* nothing still has a constraint list
Emit == phase = "done" => PrintT(<<"CASE", ToJson([prog |-> ProgText, unrolled |-> UnrolledText, nrows |-> Len(UnrolledRows),
                                                    expect |-> IF AllScoped THEN "ok" ELSE "AlreadyDeclaredVariable"])>>)
=============================================================================
