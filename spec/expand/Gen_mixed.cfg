SPECIFICATION Spec
CONSTANT Family = "mixed"
INVARIANT Emit
CHECK_DEADLOCK FALSE
