SPECIFICATION Spec
CONSTANT Family = "mix"
INVARIANT Emit
CHECK_DEADLOCK FALSE
