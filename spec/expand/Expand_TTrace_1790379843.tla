---- MODULE Expand_TTrace_1790379843 ----
EXTENDS Sequences, TLCExt, Toolbox, Expand, Naturals, TLC

_expression ==
    LET Expand_TEExpression == INSTANCE Expand_TEExpression
    IN Expand_TEExpression!expression
----

_trace ==
    LET Expand_TETrace == INSTANCE Expand_TETrace
    IN Expand_TETrace!trace
----

_inv ==
    ~(
        TLCGet("level") = Len(_TETrace)
        /\
        phase = ("done")
        /\
        rows = (<<[agg |-> "prod", term |-> [base |-> "x", ixs |-> <<[v |-> "i", off |-> 0]>>, coef |-> [v |-> "a", k |-> "val"]], inner |-> <<[v |-> "a", k |-> "arr", arr |-> "A1"]>>, extra |-> <<>>, named |-> FALSE, nameix |-> "i", cmp |-> "le", rhs |-> 10, for |-> <<[v |-> "i", lo |-> 0, hi |-> 4, k |-> "range"]>>, style |-> "block"]>>)
    )
----

_init ==
    /\ phase = _TETrace[1].phase
    /\ rows = _TETrace[1].rows
----

_next ==
    /\ \E i,j \in DOMAIN _TETrace:
        /\ \/ /\ j = i + 1
              /\ i = TLCGet("level")
        /\ phase  = _TETrace[i].phase
        /\ phase' = _TETrace[j].phase
        /\ rows  = _TETrace[i].rows
        /\ rows' = _TETrace[j].rows

\* Uncomment the ASSUME below to write the states of the error trace
\* to the given file in Json format. Note that you can pass any tuple
\* to `JsonSerialize`. For example, a sub-sequence of _TETrace.
    \* ASSUME
    \*     LET J == INSTANCE Json
    \*         IN J!JsonSerialize("Expand_TTrace_1790379843.json", _TETrace)

=============================================================================

 Note that you can extract this module `Expand_TEExpression`
  to a dedicated file to reuse `expression` (the module in the 
  dedicated `Expand_TEExpression.tla` file takes precedence 
  over the module `Expand_TEExpression` below).

---- MODULE Expand_TEExpression ----
EXTENDS Sequences, TLCExt, Toolbox, Expand, Naturals, TLC

expression == 
    [
        \* To hide variables of the `Expand` spec from the error trace,
        \* remove the variables below.  The trace will be written in the order
        \* of the fields of this record.
        phase |-> phase
        ,rows |-> rows
        
        \* Put additional constant-, state-, and action-level expressions here:
        \* ,_stateNumber |-> _TEPosition
        \* ,_phaseUnchanged |-> phase = phase'
        
        \* Format the `phase` variable as Json value.
        \* ,_phaseJson |->
        \*     LET J == INSTANCE Json
        \*     IN J!ToJson(phase)
        
        \* Lastly, you may build expressions over arbitrary sets of states by
        \* leveraging the _TETrace operator.  For example, this is how to
        \* count the number of times a spec variable changed up to the current
        \* state in the trace.
        \* ,_phaseModCount |->
        \*     LET F[s \in DOMAIN _TETrace] ==
        \*         IF s = 1 THEN 0
        \*         ELSE IF _TETrace[s].phase # _TETrace[s-1].phase
        \*             THEN 1 + F[s-1] ELSE F[s-1]
        \*     IN F[_TEPosition - 1]
    ]

=============================================================================



Parsing and semantic processing can take forever if the trace below is long.
 In this case, it is advised to uncomment the module below to deserialize the
 trace from a generated binary file.

\*
\*---- MODULE Expand_TETrace ----
\*EXTENDS IOUtils, Expand, TLC
\*
\*trace == IODeserialize("Expand_TTrace_1790379843.bin", TRUE)
\*
\*=============================================================================
\*

---- MODULE Expand_TETrace ----
EXTENDS Expand, TLC

trace == 
    <<
    ([phase |-> "rows",rows |-> <<>>]),
    ([phase |-> "rows",rows |-> <<[agg |-> "prod", term |-> [base |-> "x", ixs |-> <<[v |-> "i", off |-> 0]>>, coef |-> [v |-> "a", k |-> "val"]], inner |-> <<[v |-> "a", k |-> "arr", arr |-> "A1"]>>, extra |-> <<>>, named |-> FALSE, nameix |-> "i", cmp |-> "le", rhs |-> 10, for |-> <<[v |-> "i", lo |-> 0, hi |-> 4, k |-> "range"]>>, style |-> "block"]>>]),
    ([phase |-> "done",rows |-> <<[agg |-> "prod", term |-> [base |-> "x", ixs |-> <<[v |-> "i", off |-> 0]>>, coef |-> [v |-> "a", k |-> "val"]], inner |-> <<[v |-> "a", k |-> "arr", arr |-> "A1"]>>, extra |-> <<>>, named |-> FALSE, nameix |-> "i", cmp |-> "le", rhs |-> 10, for |-> <<[v |-> "i", lo |-> 0, hi |-> 4, k |-> "range"]>>, style |-> "block"]>>])
    >>
----


=============================================================================

---- CONFIG Expand_TTrace_1790379843 ----
CONSTANTS
    Family = "prod"

INVARIANT
    _inv

CHECK_DEADLOCK
    \* CHECK_DEADLOCK off because of PROPERTY or INVARIANT above.
    FALSE

INIT
    _init

NEXT
    _next

CONSTANT
    _TETrace <- _trace

ALIAS
    _expression
=============================================================================
\* Generated on Fri Sep 25 23:44:04 UTC 2026