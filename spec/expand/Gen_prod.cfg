SPECIFICATION Spec
CONSTANT Family = "prod"
INVARIANT Emit
CHECK_DEADLOCK FALSE
