SPECIFICATION Spec
CONSTANT Family = "alias"
INVARIANT Emit
CHECK_DEADLOCK FALSE
