SPECIFICATION Spec
CONSTANT Family = "compose"
INVARIANT Emit
CHECK_DEADLOCK FALSE
