SPECIFICATION Spec
CONSTANT Family = "graph"
INVARIANT Emit
CHECK_DEADLOCK FALSE
