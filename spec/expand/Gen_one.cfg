SPECIFICATION Spec
CONSTANT Family = "one"
INVARIANT Emit
CHECK_DEADLOCK FALSE
