SPECIFICATION Spec
CONSTANT Family = "scope"
INVARIANT Emit
CHECK_DEADLOCK FALSE
