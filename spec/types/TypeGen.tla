-------------------------------- MODULE TypeGen --------------------------------
(* Generator machine for type-perturbed programs (C19).  A program is a valid   *)
(* skeleton with ONE position -- an operand, coefficient, right-hand side,      *)
(* index, range bound, iteration source, function argument, array index,        *)
(* aggregation body, destructuring pattern, declaration bound, row-name index   *)
(* or logic operand -- filled by a value of a deliberately chosen type:         *)
(* number, negative number, float, Boolean, string, array, empty array, nested  *)
(* array, graph, node, edge, enumerate-tuple, decision variable, undeclared     *)
(* name, zero, an out-of-range index.  The machine picks a position (template)  *)
(* and then a filler; every terminal state is one source text.                  *)
EXTENDS Integers, Sequences, FiniteSets, TLC, Json

Header == "min 1\ns.t.\n    0 <= 1\n"
Data == "where\n    let A1 = [3, 1, 2]\n    let E0 = []\n    let M2 = [[1, 2], [3, 4]]\n    let S1 = \"text\"\n    let B1 = true\n    let H1 = [1, \"a\"]\n    let X3 = [[1, 2], [\"a\", \"b\"]]\n" \o
        "    let G = Graph {\n        N1 -> [N2: 2, N3: 1],\n        N2 -> [N3: 3],\n        N3\n    }\n"
Decl == "define\n    x as Real(0, 5)\n    p as Boolean\n    x_i as Boolean for i in 0..4\n    z_u as NonNegativeReal(0, 9) for u in nodes(G)"
\* row context: node u, edge e and enumerate-tuple t are in scope of every row template
RowCtx == " for u in nodes(G), e in edges(G), t in enumerate(A1)"

T(where, pre, post) == [where |-> where, pre |-> pre, post |-> post, op |-> ""]
\* an operator between TWO chosen operands, at a position the transformer evaluates (a let constant,
\* an array index, a range bound) or only translates (a row body)
T2(where, pre, op, post) == [where |-> where, pre |-> pre, post |-> post, op |-> op]
BinOps == {" + ", " - ", " * ", " / ", " and ", " or ", " xor ", " implies ", " iff "}
OpTemplates == {T2("let", "    let k = ", o, "\n") : o \in BinOps}
               \cup {T2("row", "A1[", o, "] * x <= 9") : o \in BinOps}
               \cup {T2("row", "sum(i in 0..(", o, ")) { x_i } <= 2") : o \in BinOps}
               \cup {T2("row", "(", o, ") + x <= 2") : o \in BinOps}
               \* a bound of IntegerRange: the one position that wants an integer kind exactly
               \cup {T2("decl", "\n    w as IntegerRange(0, ", o, ")") : o \in BinOps}
OpFillers == {"2", "-1", "1.5", "0", "true", "B1", "\"s\"", "S1", "A1", "G", "M2[0]", "x", "p"}
RowTemplates == {
   T("row", "x + ", " <= 3"), T("row", "", " * x <= 3"), T("row", "x <= ", ""), T("row", "x / ", " <= 3"), T("row", "x - (", " + 1) >= 0"),
   T("row", "x_{", "} <= 1"), T("row", "x_{0 + ", "} <= 1"),
   T("row", "sum(i in ", "..3) { x_i } <= 2"), T("row", "sum(i in 0..", ") { x_i } <= 2"), T("row", "sum(i in 0..=", ") { x_i } <= 2"),
   T("row", "sum(i in ", ") { i * x } <= 9"), T("row", "sum((a, b) in ", ") { a * x } <= 9"), T("row", "sum((a, b, c) in ", ") { a * x } <= 9"),
   T("row", "len(", ") * x <= 9"), T("row", "sum(i in enumerate(", ")) { x } <= 9"), T("row", "sum(v in nodes(", ")) { z_v } <= 9"),
   T("row", "sum((a, b) in edges(", ")) { x } <= 9"), T("row", "sum((a, b) in neigh_edges(", ")) { x } <= 9"), T("row", "foo(", ") * x <= 1"),
   T("row", "len(A1, ", ") * x <= 9"), T("row", "A1[", "] * x <= 9"), T("row", "", "[0] * x <= 9"), T("row", "M2[0][", "] * x <= 9"), T("row", "M2[", "][0] * x <= 9"),
   T("row", "sum(i in 0..2) { ", " } <= 9"), T("row", "min { ", ", 1 } <= 9"), T("row", "abs { ", " } <= 9"), T("row", "avg { x, ", " } <= 9"),
   T("row", "c_{", "}: x <= 1"), T("row", "p and ", ""), T("row", "not ", ""), T("row", "", ""), T("row", "p implies ", ""), T("row", "(", " or p) + x <= 2"),
   T("row", "(", " - 1) * x <= 4") }
RowTemplatesOk == RowTemplates
LetTemplates == { T("let", "    let k = ", " + 1\n"), T("let", "    let k = A1[", "]\n"), T("let", "    let k = len(", ")\n"),
                  T("let", "    let k = 10 / ", "\n"), T("let", "    let k = -", "\n"), T("let", "    let k = not ", "\n"), T("let", "    let k = ", " * 9223372036854775807\n") }
DeclTemplates == { T("decl", "\n    w as IntegerRange(", ", 3)"), T("decl", "\n    w as Real(0, ", ")"), T("decl", "\n    w as NonNegativeReal(", ", 9)"),
                   T("decl", "\n    w_i as Boolean for i in ", ""), T("decl", "\n    w_i as Boolean for i in 0..", ""), T("decl", "\n    x as ", "") }
\* the objective: what is optimized is a number
ObjTemplates == { T("obj", "", ""), T("obj", "2 * ", ""), T("obj", "x + ", ""), T("obj", "sum(i in 0..2) { ", " }") }
Templates == RowTemplatesOk \cup LetTemplates \cup DeclTemplates \cup OpTemplates \cup ObjTemplates

GlobalFillers == {"2", "-1", "1.5", "0", "7", "true", "\"s\"", "S1", "B1", "A1", "[1, 2]", "E0", "M2", "M2[0]", "G", "x", "p", "zz", "len(A1)", "A1[0]", "nodes(G)", "edges(G)",
                  \* block functions and aggregations over constants, mixed (Any) arrays and their elements, set functions
                  "max { 1, 2 }", "abs { 3 }", "avg { 1, 2 }", "sum(j in 0..2) { j }", "H1", "H1[0]", "H1[1]", "union(E0, [\"a\"])", "union(A1, [4])", "zip(A1, A1)", "enumerate(A1)",
                  "union(A1, [\"a\"])", "intersection(A1, [\"a\"])", "difference([\"a\"], A1)", "union([true], A1)", "difference(A1, 1)",
                  \* set functions over two equal arguments that are no collections
                  "difference(3, 3)", "union(\"a\", \"a\")", "intersection(G, G)", "union(B1, B1)",
                  \* a matrix whose rows differ in element kind: its static kind must not be that of its first row
                  "X3", "X3[1]", "X3[1][0]", "X3[0][1]",
                  \* an iterable function applied to the result of another one: the elements are tuples inside tuples
                  "zip(enumerate(A1), A1)", "zip(A1, enumerate(A1))", "enumerate(zip(A1, A1))", "zip(zip(A1, A1), A1)", "enumerate(enumerate(A1))"}
RowFillers == GlobalFillers \cup {"u", "e", "t", "i"}
FillersFor(t) == IF t.where = "row" THEN RowFillers ELSE GlobalFillers

VARIABLES tpl, fill, fill2, phase
vars == <<tpl, fill, fill2, phase>>
Init == tpl = T("row", "", "") /\ fill = "" /\ fill2 = "" /\ phase = "tpl"
PickTemplate == phase = "tpl" /\ (\E t \in Templates : tpl' = t) /\ phase' = "fill" /\ UNCHANGED <<fill, fill2>>
PickFiller == phase = "fill" /\ tpl.op = "" /\ (\E f \in FillersFor(tpl) : fill' = f) /\ phase' = "done" /\ UNCHANGED <<tpl, fill2>>
PickOperands == phase = "fill" /\ tpl.op # "" /\ (\E f \in OpFillers, g \in OpFillers : fill' = f /\ fill2' = g) /\ phase' = "done" /\ UNCHANGED tpl
Next == PickTemplate \/ PickFiller \/ PickOperands
Filled == IF tpl.op = "" THEN fill ELSE fill \o tpl.op \o fill2
Spec == Init /\ [][Next]_vars

Text == CASE tpl.where = "row" -> Header \o "    " \o tpl.pre \o Filled \o tpl.post \o RowCtx \o "\n" \o Data \o Decl
          [] tpl.where = "obj" -> "min " \o tpl.pre \o Filled \o tpl.post \o "\ns.t.\n    x <= 9\n" \o Data \o Decl
          [] tpl.where = "let" -> Header \o "    k * x <= 9\n" \o Data \o tpl.pre \o Filled \o tpl.post \o Decl
          [] tpl.where = "decl" -> Header \o "    x <= 9\n" \o Data \o Decl \o tpl.pre \o Filled \o tpl.post
\* what the skeleton declares: decision variables and indexed families (the trace specification
\* needs them to tell a missing member of a declared family from an undeclared name)
Emit == phase = "done" => PrintT(<<"CASE", ToJson([text |-> Text, pos |-> tpl.pre \o "@" \o tpl.post, where |-> tpl.where, filler |-> Filled,
                                                    decision |-> <<"x", "p", "w">>, families |-> <<"x_", "z_", "w_">>])>>)
=============================================================================
