------------------------------- MODULE TypeTrace -------------------------------
(* Trace specification for  type_check ; transform  (C19).                       *)
(* One event = one (perturbed) program with the verdict of the real type checker *)
(* and the outcome of the real transformer.  The property is soundness of the    *)
(* acceptance:  accepted  =>  transform is ok, or fails with a DATA-dependent    *)
(* error.  Which failures are data-dependent is decided here, from the error's   *)
(* own structure:                                                               *)
(*   OutOfBounds, TooLarge, AlreadyDeclaredDomainVariable, AlreadyDeclaredVariable,*)
(*   AlreadyDefined                                   -> data                    *)
(*   BinOpError(op, lhs, rhs) / UnOpError(op, kind)   -> data iff the operator   *)
(*        IS applicable to those operand kinds (then only the values -- division *)
(*        by zero, overflow -- can have failed); type-class otherwise            *)
(*   Other(message)            -> data iff the message is one of the value range *)
(*        checks (declared bounds, unknown graph node, static redeclaration)     *)
(*   everything else (wrong argument type or count, unknown function, undeclared *)
(*   variable, unspreadable value, destructuring failure) -> type-class          *)
EXTENDS Integers, Sequences, FiniteSets, TLC, Json, IOUtils

Rec == ndJsonDeserialize(IOEnv.TRACE)
Start == atoi(IOEnv.START)
VARIABLE l
vars == <<l>>

Contains(s, p) == \E i \in 1..(Len(s) - Len(p) + 1) : SubSeq(s, i, i + Len(p) - 1) = p
NumericK == {"Number", "Integer", "PositiveInteger", "Boolean"}
Arith == {"Add", "Sub", "Mul", "Div"}
Logic == {"And", "Or", "Xor", "Implies", "Iff"}
BinApplicable(op, a, b) ==
   \/ (op \in Arith /\ a \in NumericK /\ b \in NumericK)
   \/ (op \in Logic /\ a = "Boolean" /\ b = "Boolean")
   \/ (op = "Add" /\ a = "String" /\ b = "String")
UnApplicable(op, a) == (op = "Neg" /\ a \in NumericK) \/ (op = "Not" /\ a = "Boolean")
DataKinds == {"OutOfBounds", "TooLarge", "AlreadyDeclaredDomainVariable", "AlreadyDeclaredVariable", "AlreadyDefined"}
DataMessages == <<"Minimum value", "not found in graph", "already declared as static">>
IntegerK == {"Integer", "PositiveInteger"}
StartsWith(s, p) == Len(s) >= Len(p) /\ SubSeq(s, 1, Len(p)) = p
\* for UndeclaredVariable* the field msg carries the name; for WrongArgument lhs = expected kind, rhs = got kind
DataDependent(ev, e) ==
   \/ e.kind \in DataKinds
   \/ (e.kind = "BinOpError" /\ BinApplicable(e.op, e.lhs, e.rhs))
   \/ (e.kind = "UnOpError" /\ UnApplicable(e.op, e.lhs))
   \/ (e.kind = "Other" /\ \E i \in 1..Len(DataMessages) : Contains(e.msg, DataMessages[i]))
   \* a member of a DECLARED indexed family that does not exist: the index value is out of the declared range
   \/ (e.kind = "UndeclaredVariableDomain" /\ \E i \in 1..Len(ev.families) : StartsWith(e.msg, ev.families[i]))
   \* the sign of an integer value is data: PositiveInteger wanted, (negative) Integer given
   \/ (e.kind = "WrongArgument" /\ e.lhs \in IntegerK /\ e.rhs \in IntegerK)
\* classes of type-class failures (each is one defect of the type checker, reported under its own signature)
Class(ev, e) ==
   IF (e.kind = "Other" /\ Contains(e.msg, "is a domain variable and cannot be used inside expression valuation"))
      \/ (e.kind = "UndeclaredVariable" /\ \E i \in 1..Len(ev.decision) : ev.decision[i] = e.msg)
   THEN "a decision variable is accepted where a constant value is required"
   \* (range bounds and array indexes are checked as `numeric` only; the bounds of IntegerRange are the
   \* position where the checker does demand an integer kind, so a Number arriving there is not this class)
   ELSE IF e.kind = "WrongArgument" /\ e.lhs \in IntegerK /\ e.rhs = "Number" /\ ~Contains(ev.pos, "IntegerRange(")
   THEN "a non-integer number is accepted where an integer is required"
   ELSE IF e.kind = "Other" /\ Contains(e.msg, "Cannot destructure")
   THEN "a destructuring pattern longer than the elements it binds is accepted"
   \* a block function / aggregation builds a model expression; where a compile-time value is needed the
   \* transformer finds none (expected Any, got Undefined)
   ELSE IF e.kind = "WrongArgument" /\ e.lhs = "Any" /\ e.rhs = "Undefined"
   THEN "a block function or aggregation is accepted where a compile-time value is required"
   \* the static kind of an element of a mixed array is Any, which every position accepts
   \* (H1 = [1, "a"]; X3 = [[1, 2], ["a", "b"]] is an array of Any too and X3[1] an Any, but X3[1][0] indexes
   \* an Any, which the checker refuses: if it is accepted, that is not this class)
   ELSE IF (Contains(ev.filler, "H1[") \/ ev.filler \in {"X3", "X3[1]"}) /\ e.kind \in {"WrongArgument", "BinOpError", "UnOpError"}
   THEN "an element of a mixed (Any) array is accepted where a specific kind is required"
   ELSE "type-class error " \o e.kind

Check(ev) ==
   IF ev.out = "panic" THEN PrintT(<<"REJECT", "C19", ev.id, "panic", ev.pos, ev.filler>>)
   ELSE IF ev.out # "ran" THEN PrintT(<<"STAT", ev.id, "unparsable", "", "">>)
   ELSE IF ev.accepted /\ ~ev.transformed /\ ~DataDependent(ev, ev.tr)
        THEN PrintT(<<"REJECT", "C19", ev.id, "accepted by the type checker but transform fails: " \o Class(ev, ev.tr), ev.pos, ev.filler, ev.tr.text>>)
   ELSE PrintT(<<"STAT", ev.id, IF ev.accepted THEN "accepted" ELSE "rejected",
                 IF ev.transformed THEN "ok" ELSE ev.tr.kind, IF ev.accepted THEN "" ELSE ev.tc.kind>>)

Init == l = Start
Next == l <= Len(Rec) /\ Check(Rec[l]) /\ l' = l + 1
Spec == Init /\ [][Next]_vars
Accepted == IF TLCGet("stats").diameter = Len(Rec) - Start + 2
            THEN PrintT(<<"ACCEPTED", Len(Rec) - Start + 1>>)
            ELSE PrintT(<<"INCOMPLETE", TLCGet("stats").diameter>>) /\ FALSE
=============================================================================
